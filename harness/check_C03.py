''' C03 - A COSE integrity block verifies iff nothing it covers was altered.

Proof obligations: coq/Props/C03.v (AAD agreement, binding = the MAC/signature input is an injective
function of exactly the covered content, completeness, soundness under the named idealised-MAC hypothesis,
outside-scope invariance).  Ties to /repo's current tree (all rebuilt on every run):

  aad        CoseSecOpCtx.get_external_aad() octets of the real code == Model.BpSec.direct_aad, for random
             bundles x scopes x targets x security-block headers (pure function, no crypto)
  structure  for bundles the real agent produced: the model's MAC_structure / Sig_structure (computed in Coq
             from the wire octets) fed to the real HMAC / ECDSA / RSA-PSS primitive matches the tag / signature
             on the wire (ties the COSE structures of the model to pycose)
  verdict    model verdict on altered bundles (Coq, from wire octets) == outcome of the real verify_bib
  e2e        oracle from the property text on the real receive path, for every single-field alteration and
             (quick: a stratified sample of; thorough: all) single-bit flips, CRCs re-fixed

What is NOT proved: unforgeability of HMAC / ECDSA / RSA-PSS / AES-KW and X.509 path validation; exercised
here with the real libraries, assumed in the theorems as the Section hypothesis mac_inj.
'''
import env  # noqa: F401  (first)
import json
import os
import sys
import time

import cbor2

from common import Check

env.shim_oscrypto()
import bpdrive  # noqa: E402
import bpsecdrive as sd  # noqa: E402

PROP = 'C03'
SEC_TYPE = sd.BIB
CORPUS = os.path.join(os.path.dirname(os.path.abspath(__file__)), 'corpus')

# Genuine defects of the unchanged tree found by this check (witnesses in harness/corpus/C03_*.json).
# A signature listed in PENDING_FINDINGS is recorded but does not fail the run until the coordinator has
# entered it in known_findings.json.
SIG_EID = 'C03 / EID text altered within what EidField.i2m normalises away (query, fragment, missing path slash; primary block with stale or absent CRC, or security source) still verifies'
SIG_IGNORED = 'C03 / security block whose BTSD the decoder cannot dissect is ignored: altered BIB, bundle delivered unverified'
SIG_REASON = 'C03 / verify_bib raises on a malformed security block: status reason is the exception text, no FAILED_SEC, report generation raises out of recv_bundle'   # fixed in /repo d956b1c: a real violation if it reappears
SIG_MACKW = 'C03 / COSE_Mac with key-wrap recipient: genuine BIB never verifies and apply_bib raises (pycose API mismatch), bundle sent without BIB'
# All of them are now entered in known_findings.json (exact signatures), so every hit goes through
# Check.fail and prints KNOWN-FINDING on the unchanged tree; the gate is kept (empty) for future ones.
PENDING_FINDINGS = []

PAYLOAD = b'hello world'


_T0 = time.time()


def trace(msg):
    if os.environ.get('VERIF_TRACE'):
        sys.stderr.write('[%7.1fs] %s\n' % (time.time() - _T0, msg))
        sys.stderr.flush()


def procs():
    ''' Worker processes for the sweeps: the idle cores (a loaded machine makes forked workers slower than
    one process). '''
    try:
        idle = int(os.cpu_count() - os.getloadavg()[0])
    except OSError:
        idle = 1
    return max(1, min(16, idle))


class CoqBatch(object):
    ''' Collects model evaluations of all suites and runs them in one sharded coq_eval (every coqc start
    costs seconds; three separate rounds would pay it three times). '''

    def __init__(self):
        self.terms = []
        self.prelude = []
        self.results = None

    def add(self, term):
        self.terms.append(term)
        return len(self.terms) - 1

    def define(self, name, term):
        self.prelude.append('Definition %s := %s.' % (name, term))

    def run(self, chk, name='model'):
        nshard = procs()
        self.results = chk.coq_eval(name, ['Lib.Cbor', 'Model.BpSec'], self.terms, '(fun x => x)',
                                    prelude='\n'.join(self.prelude),
                                    chunk=min(500, max(20, (len(self.terms) + nshard - 1) // nshard)))

    def get(self, idx):
        return self.results[idx]


class Suite(object):

    def __init__(self, chk, sec_type=None, pending_list=None, oracle=None, classify=None):
        self.chk = chk
        self.pending = {}
        self.stats = {}
        self.sec_type = sec_type if sec_type is not None else SEC_TYPE
        self.pending_list = pending_list if pending_list is not None else PENDING_FINDINGS
        self.oracle = oracle
        self.classify = classify or (lambda ent, alt: sd.diff_covered(ent['wire'], alt, self.sec_type))

    def count(self, key, sub):
        self.chk.count(key, sub)

    def fail(self, signature, what, replay_obj):
        ''' Gate: pending findings are recorded (evidence + stdout note) but do not fail the run unless they
        are in known_findings.json (then Check.fail reports KNOWN-FINDING). '''
        if signature in self.pending_list and self.chk.known_match(signature) is None:
            if signature not in self.pending:
                self.pending[signature] = dict(what=what, replay=replay_obj, count=0)
            self.pending[signature]['count'] += 1
            return
        self.chk.fail(signature=signature, what=what, replay_obj=replay_obj)


# --------------------------------------------------------------------------- bundles under test

def specs(quick):
    big = bytes((idx * 7 + 3) % 256 for idx in range(300))
    out = {
        'S1': dict(dest='dtn://dst/svc', payload=PAYLOAD, crc=2, report_to='dtn://src/', flags=0x40000,
                   blocks=[dict(type=7, num=2, crc=1, data=cbor2.dumps(5)), dict(type=193, num=4, crc=0, data=b'xyz')]),
        'S2': dict(dest='dtn://dst/', payload=b'', crc=0, blocks=[]),
        'S3': dict(dest='dtn://dst/a/b', payload=big, crc=1, blocks=[dict(type=10, num=2, crc=2, data=cbor2.dumps([30, 2]))]),
        'S4': dict(dest='dtn://dst/x', payload=bytes(24), crc=2, flags=0x4, blocks=[dict(type=192, num=7, crc=2, data=bytes(range(40)))]),
    }
    return out


def agent_cases(quick):
    ''' (case id, profile, spec name) for bundles whose BIB the real agent applies. '''
    if quick:
        return [('mac0-hmac256', 'S1'), ('mac0-hmac256', 'S2'), ('mac0-hmac384', 'S3'), ('mac0-hmac512', 'S4'),
                ('sign1-es256', 'S2'), ('sign1-es384', 'S1'), ('sign1-ps512', 'S2')]
    return [(prof, spec) for prof in ('mac0-hmac256', 'mac0-hmac384', 'mac0-hmac512', 'sign1-es256', 'sign1-es384', 'sign1-ps512')
            for spec in ('S1', 'S2', 'S3', 'S4')]


def built_cases(quick):
    ''' (scope, addl_protected, targets, spec name, security block CRC type) for BIBs produced by the
    independent source with AAD scopes the agent itself never emits. '''
    out = [
        (None, cbor2.dumps({3: 50}), [1], 'S1', 0),        # no scope parameter: default {0,-1,-2}
        ({}, b'', [1], 'S1', 0),                           # nothing but the payload and the headers
        ({0: 1}, b'', [1], 'S1', 2),
        ({-1: 1}, b'', [1], 'S1', 0),
        ({0: 1, -1: 1, -2: 1}, b'', [1], 'S3', 1),
        ({-1: 3, 0: 1}, b'', [2], 'S1', 0),                # target = extension block, its BTSD also in the AAD
        ({0: 1, -1: 1, 2: 3}, cbor2.dumps({3: 50}), [1], 'S1', 0),   # another block's metadata + BTSD in scope
        ({0: 1, -1: 1, 4: 1}, b'', [1, 2], 'S1', 0),       # two targets, block 4 metadata in scope
        ({0: 1, -1: 1, 2: 2, 4: 3}, b'', [1], 'S1', 0),    # block 2 data only, block 4 metadata AND data (flags 1, 2, 3 on other blocks)
    ]
    return out if not quick else out


def recv_spec(ent, wrong_key=False):
    ''' receiver description (see bpsecdrive.receiver_from_spec) for a wire entry / a replay dict '''
    return dict(profile=ent['profile'], extra=ent.get('extra'), accept=ent.get('accept'), wrong_key=(wrong_key or False))


def multi_bib_wires(all_specs):
    ''' Bundles with two and three SEPARATE BIBs from different security sources over different targets (source
    BIB over the payload, gateway BIBs over extension blocks), for verifiers with acceptance on and off; and a
    three-target BIB applied by the real agent. '''
    wires = []
    plain = sd.SecNode(sd.SRC_ID)
    base = plain.send(all_specs['S1'])          # blocks 2 (type 7), 4 (type 193), payload 1
    layers = [('mac0-hmac256', [1], None), ('mac0-hmac384', [2], [1, '//gw1/']), ('mac0-hmac512', [4], [1, '//gw2/'])]
    for (count, accept) in ((2, True), (3, True), (2, False)):
        wire = base
        for (prof_name, targets, source) in layers[:count]:
            (kid, key, alg, _ops) = sd.PROFILES[prof_name]['key']
            wire = sd.build_security_block(wire, 'bib', 'mac0', alg, key, kid.encode(), targets, scope={0: 1, -1: 1}, source=source)
        wires.append(dict(id='built:%dbibs:accept-%s' % (count, 'on' if accept else 'off'), profile='mac0-hmac256',
                          extra=[name for (name, _t, _s) in layers[1:count]], accept=accept, n_sec=count, wire=wire,
                          payload=all_specs['S1']['payload'], source='built', scope={0: 1, -1: 1}, targets=[1]))
    for accept in (True, False):
        src = sd.make_source(sd.PROFILES['mac0-hmac256'], tgt_types=(1, 7, 193))
        wire = src.send(all_specs['S1'])
        wires.append(dict(id='agent:mac0-hmac256:S1:3targets:accept-%s' % ('on' if accept else 'off'), profile='mac0-hmac256',
                          accept=accept, wire=wire, payload=all_specs['S1']['payload'], source='agent', scope={0: 1, -1: 1},
                          targets=[1, 2, 4]))
    return wires


ORDER_SPEC = dict(dest='dtn://dst/svc', payload=PAYLOAD, crc=2,
                  blocks=[dict(type=7, num=2, crc=1, data=cbor2.dumps(5)), dict(type=10, num=3, crc=2, data=cbor2.dumps([30, 2]))])
ORDER_NUM = {1: 1, 7: 2, 10: 3}       # block type -> block number in ORDER_SPEC


def order_source_wire(order):
    ''' the bundle a source agent configured with one integrity association per block type in ``order`` (or the
    two-template association when order == 'two-templates') transmits for ORDER_SPEC - built by the code under test '''
    import re as _re
    node = sd.SecNode(sd.SRC_ID)
    if order == 'two-templates':
        mod = node.mod
        sops = []
        for name in ('mac0-hmac256', 'mac0-hmac384'):
            key = node.add_sym_key(sd.profile_key(sd.PROFILES[name]))
            sops.append(mod.SecOperation(sec_type='bib', role='source', priv_key_id=key.kid))
        node.ctx.sec_assoc.append(mod.SecAssociation(src_pat=_re.compile('.*'), dst_pat=_re.compile('.*'), tgt_blk_types=[7, 1], templates=sops))
    else:
        key = node.add_sym_key(sd.profile_key(sd.PROFILES['mac0-hmac256']))
        for btype in order:
            node.add_policy('bib', key.kid, (btype,))
    return node.send(ORDER_SPEC)


def order_wires():
    ''' Source agents configured with two or three integrity associations in EVERY order of their targets (all
    permutations of the subsets of {payload, bundle age, hop count}), and one association with two templates over
    two blocks: one BIB whose operations are in configuration order.  Through the real apply_bib. '''
    import itertools
    wires = []
    for size in (2, 3):
        for order in itertools.permutations((1, 7, 10), size):
            name = '-'.join({1: 'payload', 7: 'age', 10: 'hop'}[btype] for btype in order)
            wires.append(dict(id='agent:mac0-hmac256:order:%s' % name, profile='mac0-hmac256', wire=order_source_wire(order), payload=PAYLOAD,
                              source='agent', scope={0: 1, -1: 1}, targets=[ORDER_NUM[btype] for btype in order],
                              sweep=(order == (10, 1, 7)), regen=dict(order=list(order))))
    # one association, two templates (two keys), two target blocks: operations a1 a2 b1 b2
    wires.append(dict(id='agent:mac0-hmac256+384:order:two-templates', profile='mac0-hmac256', extra=['mac0-hmac384'],
                      wire=order_source_wire('two-templates'), payload=PAYLOAD, source='agent-mixed', scope={0: 1, -1: 1},
                      targets=[1, 2, 1, 2], sweep=False, regen=dict(order='two-templates')))
    return wires


def key_by_kid(kid):
    for prof in sd.PROFILES.values():
        if 'key' in prof and prof['key'][0].encode() == bytes(kid):
            return prof
    return None


def check_pairing(suite, ent, replay):
    ''' Independent check on the wire: result i of every BIB is the MAC over target i (AAD and MAC_structure
    recomputed by the independent source, key found by the KID in the message). '''
    chk = suite.chk
    items = [it for (it, _r, _o) in sd.split_bundle(ent['wire'])]
    for blk in items[1:]:
        if blk[0] != SEC_TYPE:
            continue
        asb = sd.asb_decode(blk[4])
        (addl, _un, scope) = sd.sec_params(asb)
        if len(asb['targets']) != len(asb['results']):
            chk.fail(signature='C03 / BIB target list and result list do not pair up', what='%s: %d targets, %d results' % (
                ent['id'], len(asb['targets']), len(asb['results'])), replay_obj=replay)
            continue
        for (ix, tnum) in enumerate(asb['targets']):
            (code, val) = asb['results'][ix][0]
            msg = cbor2.loads(val)
            if code != 17 or not isinstance(msg[1], dict) or 4 not in msg[1]:
                continue
            prof = key_by_kid(msg[1][4])
            if prof is None:
                continue
            (_kid, key, alg, _ops) = prof['key']
            tgt = [b for b in items[1:] if b[1] == tnum][0]
            aad = sd.py_external_aad(items, blk[:3], asb['source'], scope, addl, tnum)
            good = sd.py_mac(alg, key, cbor2.dumps(['MAC0', msg[0], aad, tgt[4]])) == msg[3]
            suite.count('pairing_checked', 'ok' if good else 'MISMATCH')
            if not good:
                chk.fail(signature='C03 / BIB result i is not the MAC over target i',
                         what='%s: BIB %d lists targets %r but result %d does not authenticate block %d' % (
                             ent['id'], blk[1], asb['targets'], ix, tnum), replay_obj=replay)


def make_wires(chk, quick):
    ''' :return: list of dict(id, profile, wire, payload, source ('agent'|'built'), scope, targets). '''
    all_specs = specs(quick)
    wires = []
    for (prof_name, spec_name) in agent_cases(quick):
        prof = sd.PROFILES[prof_name]
        src = sd.make_source(prof)
        wire = src.send(all_specs[spec_name])
        wires.append(dict(id='agent:%s:%s' % (prof_name, spec_name), profile=prof_name, wire=wire,
                          payload=all_specs[spec_name]['payload'], source='agent', scope={0: 1, -1: 1}, targets=[1]))
    plain = sd.SecNode(sd.SRC_ID)
    prof = sd.PROFILES['mac0-hmac256']
    (kid, key, alg, _ops) = prof['key']
    for (idx, (scope, addl, targets, spec_name, crc)) in enumerate(built_cases(quick)):
        base = plain.send(all_specs[spec_name])
        wire = sd.build_security_block(base, 'bib', 'mac0', alg, key, kid.encode(), targets, scope=scope,
                                       addl_protected=addl, crc=crc)
        wires.append(dict(id='built:%d:%s' % (idx, spec_name), profile='mac0-hmac256', wire=wire,
                          payload=all_specs[spec_name]['payload'], source='built', scope=scope, targets=targets))
    wires.extend(multi_bib_wires(all_specs))
    wires.extend(order_wires())
    return wires


# --------------------------------------------------------------------------- suite: AAD correspondence

EIDS = ['dtn://dst/svc', 'dtn://a/', 'dtn://node-1/x/y', 'dtn:none', 'ipn:1.0', 'ipn:977000.5', 'dtn://h/~grp']


def aad_cases(rng, count):
    cases = []
    for idx in range(count):
        nblk = rng.choice([0, 1, 2, 3])
        nums = rng.sample([2, 3, 4, 5, 9, 23, 24, 300], nblk)
        blocks = [dict(type=rng.choice([6, 7, 10, 192, 250]), num=num, flags=rng.choice([0, 1, 4, 0x12]),
                       crc=rng.choice([0, 1, 2]), data=bytes(rng.randrange(256) for _ in range(rng.choice([0, 1, 5, 23, 24, 70]))))
                  for num in nums]
        frag = rng.random() < 0.15
        spec = dict(dest=rng.choice(EIDS[:3] + EIDS[4:]), src=rng.choice(EIDS), report_to=rng.choice(EIDS),
                    flags=rng.choice([0, 4, 0x40000, 0x24044]), crc=rng.choice([0, 1, 2]), time=rng.choice([0, 1, 800000000000]),
                    seq=rng.choice([0, 7, 1000]), lifetime=rng.choice([1, 3600000, 2 ** 33]),
                    payload=bytes(rng.randrange(256) for _ in range(rng.choice([0, 1, 23, 24, 255, 256]))), blocks=blocks)
        if frag:
            spec['frag'] = (rng.choice([0, 24]), rng.choice([100, 70000]))
        keys = [0, -1, -2] + nums + [rng.choice([77, 6, -3])]
        scope = {}
        for key in rng.sample(keys, rng.randrange(0, min(5, len(keys)) + 1)):
            scope[key] = rng.choice([0, 1, 2, 3, 1, 1, 5])
        target = rng.choice(nums + [1, 1])
        sec_hdr = [rng.choice([11, 12]), rng.choice([8, 40, 1000]), rng.choice([0, 1, 5])]
        addl = rng.choice([b'', b'', cbor2.dumps({1: 5}), bytes(rng.randrange(256) for _ in range(30))])
        source = rng.choice(EIDS)
        sec_btsd = rng.choice([b'', b'\x81\x01\x03', bytes(rng.randrange(256) for _ in range(40))])
        cases.append(dict(spec=spec, scope=scope, target=target, sec_hdr=sec_hdr, addl=addl, source=source, sec_btsd=sec_btsd))
    # boundary-directed: every single key / flag combination on one bundle
    base = dict(dest='dtn://dst/svc', src='dtn://src/', report_to='dtn:none', flags=0, crc=1, payload=b'pp',
                blocks=[dict(type=7, num=2, flags=1, crc=2, data=b'\x05')])
    for key in (0, -1, -2, 2, 1, 3):
        for flags in (0, 1, 2, 3):
            cases.append(dict(spec=base, scope={key: flags}, target=rng.choice([1, 2]), sec_hdr=[11, 3, 0], addl=b'', source='dtn://src/', sec_btsd=b'\x01\x02'))
    return cases


def suite_aad(chk, node, quick, batch, count=None):
    ''' :return: finish() to call after batch.run '''
    cases = aad_cases(chk.rng, count or (80 if quick else 1500))
    idxs = []
    impl = []
    for case in cases:
        wire = bpdrive.encode_bundle(case['spec'])
        impl.append(node.external_aad(wire, case['sec_hdr'], case['source'], case['scope'], case['addl'], case['target'], case['sec_btsd']))
        idxs.append(batch.add('(direct_aad %s (mkCB %d %d %d 0 %s) %s %s %s %d)' % (
            sd.coq_octets(wire), case['sec_hdr'][0], case['sec_hdr'][1], case['sec_hdr'][2], sd.coq_octets(case['sec_btsd']),
            sd.coq_cbor(bpdrive.eid_to_cbor(case['source'])), sd.coq_scope(case['scope']), sd.coq_octets(case['addl']),
            case['target'])))

    def finish():
        bad = []
        for (case, real, idx) in zip(cases, impl, idxs):
            mod = batch.get(idx)
            real_c = None if isinstance(real, str) else list(real)
            mod_c = None if mod is None else list(mod[1])
            nontrivial = real_c is not None and len(case['scope']) > 0
            chk.case(ident=('aad', json.dumps(case, sort_keys=True, default=lambda b: b.hex())), nontrivial=nontrivial,
                     sample=dict(suite='aad', scope={str(k): v for (k, v) in case['scope'].items()}, target=case['target'],
                                 sec_hdr=case['sec_hdr'], aad_hex=(bytes(real_c).hex() if real_c is not None else real)))
            chk.count('aad_scope_size', len(case['scope']))
            chk.count('aad_result', 'octets' if real_c is not None else real)
            if real_c != mod_c:
                bad.append(dict(case=case, real=(bytes(real_c).hex() if real_c is not None else real),
                                model=(bytes(mod_c).hex() if mod_c is not None else None)))
        chk.obligation('correspondence:aad', not bad, json.dumps(bad[:2], default=lambda b: b.hex())[:600])
        return bad
    return finish


# --------------------------------------------------------------------------- suite: structures vs real primitives

def verify_signature(pki_kind, data, sig):
    from cryptography.hazmat.primitives import hashes
    from cryptography.hazmat.primitives.asymmetric import ec, padding, utils
    objs = sd._pki_objects(sd.load_pki(pki_kind, sd.SRC_ID))
    pub = objs['end_cert'].public_key()
    try:
        if pki_kind == 'rsa':
            pub.verify(sig, data, padding.PSS(mgf=padding.MGF1(hashes.SHA512()), salt_length=64), hashes.SHA512())
        else:
            half = len(sig) // 2
            der = utils.encode_dss_signature(int.from_bytes(sig[:half], 'big'), int.from_bytes(sig[half:], 'big'))
            pub.verify(der, data, ec.ECDSA(hashes.SHA256() if pki_kind == 'ec256' else hashes.SHA384()))
        return True
    except Exception:
        return False


def suite_structure(chk, wires, node, batch):
    idxs = [batch.add('(wire_inputs %s)' % sd.coq_octets(ent['wire'])) for ent in wires]

    def finish():
        bad = []
        for (ent, idx) in zip(wires, idxs):
            mod = batch.get(idx)
            prof = sd.PROFILES[ent['profile']]
            okay = mod is not None
            detail = 'model returned None'
            if okay:
                ops = [(num, bytes(inp), bytes(tag)) for (num, lst) in mod[1] for (inp, tag) in lst]
                okay = len(ops) == len(ent['targets'])
                for (tix, (num, inp, tag)) in enumerate(ops):
                    if prof['kind'] == 'mac0':
                        (_kid, key, alg, _ops) = prof['key']
                        good = sd.py_mac(alg, key, inp) == tag
                    else:
                        good = verify_signature(prof['pki'], inp, tag)
                    # and the receiver's own AAD is inside that input
                    real_aad = node.receiver_aad(ent['wire'], num, tix)
                    good = good and isinstance(real_aad, bytes) and cbor2.dumps(real_aad) in inp
                    okay = okay and good
                detail = 'tag over the model structure does not match'
            chk.case(ident=('structure', ent['id']), nontrivial=True)
            chk.count('structure_kind', prof['kind'])
            if not okay:
                bad.append(dict(id=ent['id'], detail=detail))
        chk.obligation('correspondence:structure', not bad, json.dumps(bad[:3])[:500])
        return bad
    return finish


# --------------------------------------------------------------------------- suite: alterations

def alterations(ent, rng, quick, sec_type=SEC_TYPE):
    ''' every single-field alteration + (sample of) single-bit flips of one wire bundle '''
    wire = ent['wire']
    out = []
    for (label, alt) in sd.field_alterations(wire, sec_type, rng):
        out.append(dict(kind='field', label=label, alt=alt))
    if quick:
        per_field = 1 if len(wire) > 400 else 2
        positions = sd.sample_bit_positions(wire, per_field, rng)
    else:
        spans = sd.locate_fields(wire)
        positions = []
        for bit in range(len(wire) * 8):
            label = [lab for (a, b, lab) in spans if a * 8 <= bit < b * 8][0]
            positions.append((bit, label))
    for (bit, label) in positions:
        alt = sd.flip_bit(wire, bit)
        if alt is not None:
            out.append(dict(kind='bit', label='bit%d@%s' % (bit, label), alt=alt))
        # a flip inside a CRC-protected block, CRC left as it was, is dropped by the CRC gate: not interesting
    return out


def eid_only(orig, alt, sec_type=SEC_TYPE):
    ''' the two bundles differ only in the text of dtn EIDs (primary block EIDs / security source), CRC values aside '''
    try:
        io = [it for (it, _r, _o) in sd.split_bundle(orig)]
        ia = [it for (it, _r, _o) in sd.split_bundle(alt)]
    except Exception:
        return False
    if len(io) != len(ia):
        return False

    def strip(items):
        items = json.loads(json.dumps(items, default=lambda b: {'b': b.hex()}))
        pri = items[0]
        for idx in (3, 4, 5):
            if isinstance(pri[idx], list) and len(pri[idx]) == 2 and pri[idx][0] == 1:
                pri[idx] = 'EID'
        if pri[2]:
            pri[-1] = 'CRC'
        return items
    try:
        so = strip(io)
        sa = strip(ia)
        for (bo, ba) in zip(io[1:], ia[1:]):
            if bo[0] == sec_type and ba[0] == sec_type:
                ao = sd.asb_decode(bo[4])
                aa = sd.asb_decode(ba[4])
                if ao['source'][0] == 1 and aa['source'][0] == 1 and isinstance(aa['source'][1], str):
                    ao['source'] = aa['source'] = 'EID'
                if cbor2.dumps(ao) != cbor2.dumps(aa):
                    return False
                idx = io.index(bo)
                so[idx] = sa[idx] = ['SECBLK'] + list(bo[:4])
                if list(bo[:4]) != list(ba[:4]):
                    return False
        return so == sa
    except Exception:
        return False


def primary_same(orig, alt):
    ''' the primary block octets are identical (so routing, CRC gate and duplicate detection cannot differ) '''
    try:
        return sd.split_bundle(orig)[0][1] == sd.split_bundle(alt)[0][1]
    except Exception:
        return False


def oracle(suite, ent, case, cls, out, replay):
    ''' The property text on the observable outcome of the real receive path. '''
    chk = suite.chk
    (klass, detail) = cls
    direct = out.get('direct') or {}
    bib = direct.get('bib', [])
    delivered = out['delivered']
    pay_ok = delivered and (out['payload'] == ent['payload'].hex() or 1 not in ent.get('targets', [1]))
    if klass == 'must_fail':
        if delivered:
            if bib == [] and direct.get('error') is None:
                suite.fail(SIG_IGNORED, 'BIB altered (%s: %s) -> the block is not recognised as a security block, bundle delivered without verification' % (case['label'], detail), replay)
            elif eid_only(ent['wire'], case['alt']):
                suite.fail(SIG_EID, 'covered EID altered (%s: %s) yet verify_bib returned %r and the bundle was delivered to %s' % (
                    case['label'], detail, bib, out.get('dest')), replay)
            else:
                chk.fail(signature='C03 / altered covered content accepted: %s' % detail.split(' of op')[0],
                         what='alteration %s (%s): covered content differs but the bundle was delivered (verify_bib %r)' % (case['label'], detail, bib),
                         replay_obj=replay)
        else:
            reached = any(val is not None for val in bib)
            if reached and not out['sec_failure'] and out['decode_error'] is None:
                if any(isinstance(val, str) for val in bib) or out['reason'] == 'str':
                    suite.fail(SIG_REASON, 'alteration %s: verify_bib raised (%r); recorded reason %r, recv_bundle raised %r' % (
                        case['label'], bib, out['reason'], out['recv_exc']), replay)
                elif out['recv_exc'] is None and out['deleted'] is False and out['forwarded'] == 0 and direct.get('error') is None \
                        and sd.diff_covered(ent['wire'], case['alt'], SEC_TYPE)[0] == 'must_fail' and not case.get('stale'):
                    # verification fails when called directly, the receive path neither delivered nor deleted:
                    # dropped earlier (CRC gate of a non-canonical encoding, own source, ...): not a C03 matter
                    suite.count('must_fail_dropped_before_verification', case['kind'])
    elif klass == 'asb_malformed':
        if delivered and bib == [] and direct.get('error') is None:
            suite.fail(SIG_IGNORED, 'BIB altered (%s: %s) -> the block is not recognised as a security block, bundle delivered without verification' % (case['label'], detail), replay)
        elif delivered:
            suite.count('lenient_decode_verified', case['kind'])
    elif klass == 'must_pass':
        verified = bool(bib) and all(val is None for val in bib) and direct.get('error') is None
        routing_same = primary_same(ent['wire'], case['alt'])
        if direct.get('error') is not None and not routing_same:
            # the altered primary block (outside the scope here) makes the bundle undecodable for the agent
            # (e.g. administrative-record flag set on a non-record payload): nothing is verified or delivered
            suite.count('must_pass_undecodable_after_primary_change', case['kind'])
        elif not verified or (routing_same and not (delivered and pay_ok)):
            chk.fail(signature='C03 / alteration outside the declared scope makes verification fail or changes the delivered data',
                     what='alteration %s leaves all covered content unchanged but: delivered=%r payload_ok=%r verify_bib=%r reason=%r exc=%r' % (
                         case['label'], delivered, pay_ok, bib, out['reason'], out['recv_exc'] or out['decode_error']),
                     replay_obj=replay)
    elif klass == 'either':
        if delivered and not pay_ok:
            chk.fail(signature='C03 / delivered data differs from what was authenticated',
                     what='alteration %s: delivered payload differs' % case['label'], replay_obj=replay)
    suite.count('outcome', '%s/%s' % (klass, 'delivered' if delivered else ('sec_failure' if out['sec_failure'] else 'not_delivered')))


def expected_direct(verdict, bib, error):
    ''' model verdict (Model.BpSec.verdict) vs return values of the real verify_bib '''
    if verdict == 1 or verdict == 6:
        return error is None and all(val is None for val in bib) and (verdict == 6 or len(bib) > 0)
    if verdict == 0:
        return error is not None or any(val is not None for val in bib)
    if verdict == 3:
        return error is not None or bib == []
    return True      # 2: key resolution decides; 4: the model does not parse the octets; 5: a block of type 11/12
    #                  whose BTSD is not an ASB: the real code ignores that block (C12) and judges the others


def suite_alterations(suite, wires, quick, batch):
    chk = suite.chk
    nproc = procs()
    verdict_idx = []
    verdict_meta = []
    for (widx, ent) in enumerate(wires):
        if ent.get('sweep') is False:
            continue
        batch.define('orig%d' % widx, sd.coq_octets(ent['wire']))
        cases = alterations(ent, chk.rng, quick, suite.sec_type)
        classes = [suite.classify(ent, case['alt']) for case in cases]
        trace('%s: %d alterations classified' % (ent['id'], len(cases)))
        outs = sd.sweep(recv_spec(ent), [case['alt'] for case in cases], procs=nproc)
        trace('%s: swept' % ent['id'])
        budget = 25 if quick else 400
        for (cidx, (case, cls, out)) in enumerate(zip(cases, classes, outs)):
            replay = dict(wire_hex=ent['wire'].hex(), alt_hex=case['alt'].hex(), profile=ent['profile'], label=case['label'],
                          payload_hex=ent['payload'].hex(), wire_id=ent['id'], extra=ent.get('extra'), targets=ent.get('targets'),
                          accept=ent.get('accept'))
            case['stale'] = case['label'].endswith(':stale-crc')
            (suite.oracle or oracle)(suite, ent, case, cls, out, replay)
            nontrivial = cls[0] in ('must_fail', 'must_pass', 'either')
            chk.case(ident=('alt', ent['id'], case['alt'].hex()), nontrivial=nontrivial,
                     sample=dict(suite='alteration', wire=ent['id'], label=case['label'], cls=cls[0], detail=cls[1],
                                 delivered=out['delivered'], sec_failure=out['sec_failure'], verify=out['direct']['bcb'] + out['direct']['bib']))
            suite.count('alteration_kind', case['kind'])
            suite.count('class', cls[0])
            suite.count('profile', ent['profile'])
            # model verdict for every field alteration of MAC0 bundles and a share of everything else
            want = (case['kind'] == 'field' and len(ent['wire']) < 400 and (not quick or cidx % 2 == 0)) or cidx % 5 == 0
            if want and budget > 0 and len(ent['wire']) < 1500:
                budget -= 1
                verdict_idx.append(batch.add('(verdict orig%d %s)' % (widx, sd.coq_octets(case['alt']))))
                verdict_meta.append((ent, case, cls, out))
    trace('%d verdict terms' % len(verdict_idx))
    suite.stats['verdict_cases'] = len(verdict_idx)
    suite.stats['sweep_procs'] = nproc

    def finish():
        disagree = []
        for ((ent, case, cls, out), idx) in zip(verdict_meta, verdict_idx):
            verdict = batch.get(idx)
            suite.count('model_verdict', verdict)
            direct = out['direct']
            if cls[0] in ('malformed', 'asb_malformed'):
                suite.count('verdict_outside_model_domain', cls[0])
                continue
            if verdict == 6 and ent.get('extra'):
                continue      # targets cut from one block, the other block's operation then decides
            if not expected_direct(verdict, direct['bcb'] + direct['bib'], direct['error']):
                disagree.append(dict(wire=ent['id'], label=case['label'], verdict=verdict, verify=direct['bcb'] + direct['bib'],
                                     error=direct['error'], cls=cls[0], alt_hex=case['alt'].hex(), wire_hex=ent['wire'].hex()))
            # the model and the property text must agree on what is covered, except where the model
            # reproduces a defect of the code (EID normalisation -> pending finding above)
            if verdict == 1 and cls[0] == 'must_fail' and not eid_only(ent['wire'], case['alt'], suite.sec_type):
                disagree.append(dict(wire=ent['id'], label=case['label'], verdict=verdict, cls=cls, note='model says unchanged, property text says covered content differs',
                                     alt_hex=case['alt'].hex(), wire_hex=ent['wire'].hex()))
            if verdict == 0 and cls[0] == 'must_pass':
                disagree.append(dict(wire=ent['id'], label=case['label'], verdict=verdict, cls=cls, note='model says altered, property text says nothing covered changed',
                                     alt_hex=case['alt'].hex(), wire_hex=ent['wire'].hex()))
        if disagree:
            with open(os.path.join(os.path.dirname(CORPUS), '..', 'build', '%s_verdict_disagreements.json' % chk.prop_id), 'w') as out:
                json.dump(disagree, out, indent=1)
        chk.obligation('correspondence:verdict', not disagree, json.dumps(disagree[:2])[:900])
        return disagree
    return finish


# --------------------------------------------------------------------------- suite: unaltered, wrong key, COSE_Mac

def suite_baseline(suite, wires):
    chk = suite.chk
    for ent in wires:
        good = sd.receiver_from_spec(recv_spec(ent))
        out = good.recv(ent['wire'])
        vd = good.verify_direct(ent['wire'])
        replay = dict(wire_hex=ent['wire'].hex(), alt_hex=ent['wire'].hex(), profile=ent['profile'], label='unaltered',
                      payload_hex=ent['payload'].hex(), wire_id=ent['id'], extra=ent.get('extra'), accept=ent.get('accept'),
                      targets=ent.get('targets'), regen=ent.get('regen'))
        chk.case(ident=('baseline', ent['id']), nontrivial=True)
        items = [it for (it, _r, _o) in sd.split_bundle(ent['wire'])]
        n_bib = sum(1 for blk in items[1:] if blk[0] == SEC_TYPE)
        want = ent.get('n_sec', 1)
        if n_bib != want:
            chk.fail(signature='C03 / source did not add the expected BIB(s)', what='%s: %d BIBs on the wire, expected %d' % (ent['id'], n_bib, want), replay_obj=replay)
            continue
        if not (out['delivered'] and out['payload'] == ent['payload'] and vd['bib'] == [None] * want):
            chk.fail(signature='C03 / unmodified bundle does not verify at a receiver holding the right key',
                     what='%s: delivered=%r verify_bib=%r reason=%r' % (ent['id'], out['delivered'], vd['bib'], out['reason']), replay_obj=replay)
        check_pairing(suite, ent, replay)
        suite.count('bib_target_order', '>'.join(str(t) for t in ent.get('targets', [1])))
        bad = sd.receiver_from_spec(recv_spec(ent, wrong_key=True))
        outb = bad.recv(ent['wire'])
        vdb = bad.verify_direct(ent['wire'])
        chk.case(ident=('wrongkey', ent['id']), nontrivial=True)
        replay['wrong_key'] = True
        if outb['delivered'] or vdb['bib'] != [sd.FAILED_SEC] * want or not outb['sec_failure']:
            chk.fail(signature='C03 / wrong key accepted or failure not reported',
                     what='%s with the wrong key: delivered=%r verify_bib=%r sec_failure=%r reason=%r' % (
                         ent['id'], outb['delivered'], vdb['bib'], outb['sec_failure'], outb['reason']), replay_obj=replay)
        suite.count('baseline', ent['profile'])
        suite.count('security_blocks_per_bundle', want)
        suite.count('targets_per_bundle', len(ent.get('targets', [1])))
        suite.count('accept_after_verify', str(ent.get('accept')))


def suite_mac_kw(suite):
    ''' COSE_Mac with a wrapped content key: the agent's own source path and the verifier, on a BIB built by
    the independent source. '''
    chk = suite.chk
    prof = sd.PROFILES['mac-kw-hmac256']
    spec = specs(True)['S1']
    src = sd.make_source(prof)
    wire_src = src.send(spec)
    n_bib = sum(1 for (blk, _r, _o) in sd.split_bundle(wire_src)[1:] if blk[0] == SEC_TYPE) if wire_src else 0
    plain = sd.SecNode(sd.SRC_ID)
    base = plain.send(spec)
    (kid, kek, kek_alg, _ops) = prof['key']
    wire = sd.build_security_block(base, 'bib', 'mac', prof['content_alg'], prof['content_key'], kid.encode(), [1],
                                   scope={0: 1, -1: 1}, kek=kek, kek_alg=kek_alg)
    dst = sd.make_receiver(prof)
    out = dst.recv(wire)
    vd = dst.verify_direct(wire)
    chk.case(ident=('mac-kw', wire.hex()), nontrivial=True,
             sample=dict(suite='mac-kw', source_bibs=n_bib, verify_bib=vd['bib'], delivered=out['delivered']))
    replay = dict(wire_hex=wire.hex(), alt_hex=wire.hex(), profile='mac-kw-hmac256', label='unaltered COSE_Mac',
                  payload_hex=spec['payload'].hex(), wire_id='built:mac-kw')
    if n_bib != 1 or vd['bib'] != [None] or not out['delivered']:
        suite.fail(SIG_MACKW, 'policy COSE_Mac + A128KW: the agent transmitted the bundle with %d BIB(s); a genuine BIB built per RFC 9052 gives verify_bib=%r delivered=%r' % (
            n_bib, vd['bib'], out['delivered']), replay)
    # whatever the verdict on the genuine one, an altered payload must not be accepted
    alt = sd.flip_bit(wire, (len(wire) - 8) * 8)
    outa = dst.recv(alt)
    if outa['delivered']:
        chk.fail(signature='C03 / altered covered content accepted: COSE_Mac', what='altered payload under COSE_Mac delivered',
                 replay_obj=dict(replay, alt_hex=alt.hex()))


# --------------------------------------------------------------------------- suite: signer certificates (Sign1)

CERT_VARIANTS = ['good', 'untrusted_ca', 'other_node', 'no_san', 'san_dns_only', 'no_eku', 'wrong_eku', 'no_ku_ds', 'expired', 'not_yet']
CERT_PKI_FILE = os.path.join(CORPUS, 'C12_pki.json')      # built by prop-c12 exactly as test_app_bpsec.py builds certificates
_CERT_PKI = {}


def cert_pki():
    ''' CA ca1 (trusted), CA ca2 (not trusted) and one ES256 end-entity certificate per variant for the security
    source dtn://src/.  Only 'good' authenticates that source: id-on-bundleEID SAN naming it, digitalSignature,
    id-kp-bundleSecurity, valid at the bundle creation time, chain to the trusted CA. '''
    if not _CERT_PKI:
        if os.path.exists(CERT_PKI_FILE):
            with open(CERT_PKI_FILE) as infile:
                _CERT_PKI.update(json.load(infile))
        if sorted(_CERT_PKI.get('end', {})) != sorted(CERT_VARIANTS):
            import check_C12      # regenerates the corpus file
            _CERT_PKI.clear()
            _CERT_PKI.update(check_C12.pki_data())
    return _CERT_PKI


def signer_pki(variant):
    data = cert_pki()
    ent = data['end'][variant]
    return dict(ca_cert=data[ent['ca']]['ca_cert'], end_cert=ent['end_cert'], end_key=ent['end_key'])


def chain_to_thumbprint(raw):
    ''' additional unprotected header x5chain (33) -> x5t (34: [SHA-256, thumbprint of the end-entity certificate]),
    RFC 9360; the header is unprotected, the signature stays what the agent computed '''
    import hashlib
    items = [it for (it, _r, _o) in sd.split_bundle(raw)]
    for item in items[1:]:
        if item[0] != SEC_TYPE:
            continue
        asb = sd.asb_decode(item[4])
        for par in asb['params']:
            if par[0] == 4:
                hdr = cbor2.loads(par[1])
                chain = hdr.pop(33)
                hdr[34] = [-16, hashlib.sha256(chain if isinstance(chain, bytes) else chain[0]).digest()]
                par[1] = cbor2.dumps(hdr)
        item[4] = sd.asb_encode(asb)
    return sd.join_bundle(items)


def cert_receiver(cert):
    ''' trusts CA one only; for x5t lookup the signer's certificate (and its issuer) are in the certificate store '''
    data = cert_pki()
    node = sd.SecNode(sd.DST_ID, accept_after_verify=bool(cert.get('accept')))
    node.add_pki(dict(ca_cert=data['ca1']['ca_cert'], end_cert=data['end']['good']['end_cert'], end_key=data['end']['good']['end_key']), signer=False)
    if cert['x5'] == 'x5t':
        node.add_cert_to_store(signer_pki(cert['variant']))
    return node


def check_cert(suite, rep, out, vd):
    ''' oracle: only a certificate that authenticates the claimed security source is the right key '''
    chk = suite.chk
    variant = rep['cert']['variant']
    if variant == 'good':
        if not (out['delivered'] and vd['bib'] == [None]):
            chk.fail(signature='C03 / unmodified bundle does not verify at a receiver holding the right key',
                     what='Sign1 BIB, signer certificate authenticates the source (%s): delivered=%r verify_bib=%r' % (rep['cert']['x5'], out['delivered'], vd['bib']),
                     replay_obj=rep)
    elif out['delivered'] or vd['bib'] != [sd.FAILED_SEC] or not out['sec_failure']:
        chk.fail(signature='C03 / signature accepted under a certificate that does not authenticate the security source: %s' % variant,
                 what='Sign1 BIB whose signer certificate is %s (%s): delivered=%r verify_bib=%r sec_failure=%r' % (
                     variant, rep['cert']['x5'], out['delivered'], vd['bib'], out['sec_failure']), replay_obj=rep)


def suite_certs(suite):
    chk = suite.chk
    spec = specs(True)['S2']
    for variant in CERT_VARIANTS:
        src = sd.SecNode(sd.SRC_ID, include_chain=True)
        src.add_pki(signer_pki(variant), signer=True)
        src.add_policy('bib', b'sign', (1,))
        wire_chain = src.send(spec)
        for (x5, accept) in (('x5chain', False), ('x5t', False), ('x5chain', True)):
            wire = wire_chain if x5 == 'x5chain' else chain_to_thumbprint(wire_chain)
            cert = dict(variant=variant, x5=x5, accept=accept)
            rep = dict(wire_hex=wire.hex(), alt_hex=wire.hex(), profile='sign1-es256', label='cert:%s:%s' % (variant, x5),
                       payload_hex=spec['payload'].hex(), wire_id='cert:%s' % variant, cert=cert)
            node = cert_receiver(cert)
            out = node.recv(wire)
            vd = node.verify_direct(wire)
            chk.case(ident=('cert', variant, x5, accept), nontrivial=True,
                     sample=dict(suite='cert', variant=variant, x5=x5, accept=accept, delivered=out['delivered'], verify_bib=vd['bib']))
            suite.count('signer_certificate', variant)
            suite.count('key_lookup', x5)
            check_cert(suite, rep, out, vd)


# --------------------------------------------------------------------------- corpus + replay

def run_one(replay):
    ''' Re-run exactly one stored input; returns (class, outcome). '''
    if replay.get('cert'):
        node = cert_receiver(replay['cert'])
    else:
        node = sd.receiver_from_spec(recv_spec(replay, wrong_key=replay.get('wrong_key')))
    wire = bytes.fromhex(replay['wire_hex'])
    alt = bytes.fromhex(replay['alt_hex'])
    if replay.get('regen') and alt == wire:
        # a source-side case: the bundle is produced again by the source of the tree under test
        order = replay['regen']['order']
        wire = alt = order_source_wire(order if isinstance(order, str) else tuple(order))
        replay['wire_hex'] = replay['alt_hex'] = wire.hex()
    out = node.recv(alt)
    vd = node.verify_direct(alt)
    cls = sd.diff_covered(wire, alt, SEC_TYPE) if alt != wire else ('unaltered', '')
    return (cls, out, vd)


def suite_corpus(suite):
    chk = suite.chk
    for name in sorted(os.listdir(CORPUS)):
        if not (name.startswith('C03_') and name.endswith('.json')):
            continue
        with open(os.path.join(CORPUS, name)) as infile:
            item = json.load(infile)
        (cls, out, vd) = run_one(item['replay'])
        chk.case(ident=('corpus', name), nontrivial=True)
        ent = dict(wire=bytes.fromhex(item['replay']['wire_hex']), payload=bytes.fromhex(item['replay']['payload_hex']),
                   profile=item['replay']['profile'], id=item['replay'].get('wire_id', name),
                   targets=item['replay'].get('targets') or [1])
        case = dict(label=item['replay']['label'], alt=bytes.fromhex(item['replay']['alt_hex']), kind='corpus')
        out['direct'] = dict(bib=vd['bib'], bcb=vd['bcb'], error=vd['error'])
        out['payload'] = out['payload'].hex() if out['payload'] is not None else None
        if cls[0] != 'unaltered':
            oracle(suite, ent, case, cls, out, item['replay'])


def finish_keep_evidence(chk, **kwargs):
    ''' Check.finish always writes evidence/<id>.json; a --replay of one input must not replace the evidence
    of the last full run. '''
    path = os.path.join(os.path.dirname(CORPUS), '..', 'evidence', chk.prop_id + '.json')
    old = None
    if os.path.exists(path):
        with open(path, 'rb') as infile:
            old = infile.read()
    try:
        chk.finish(**kwargs)
    finally:
        if old is not None:
            with open(path, 'wb') as out:
                out.write(old)


def replay_main(chk, path):
    with open(path) as infile:
        item = json.load(infile)
    rep = item.get('replay', item)
    if 'broken' in rep:
        print('replay file names broken obligations, no concrete input: %s' % json.dumps(rep)[:500])
        sys.exit(1)
    suite = Suite(chk)
    (cls, out, vd) = run_one(rep)
    print('class by the property text: %s (%s)' % cls)
    print('real receive path: delivered=%r payload=%r sec_failure=%r reason=%r recv_exc=%r; verify_bib -> %r' % (
        out['delivered'], out['payload'], out['sec_failure'], out['reason'], out['recv_exc'], vd['bib']))
    ent = dict(wire=bytes.fromhex(rep['wire_hex']), payload=bytes.fromhex(rep['payload_hex']), profile=rep['profile'],
               id=rep.get('wire_id', 'replay'), targets=rep.get('targets') or [1])
    case = dict(label=rep['label'], alt=bytes.fromhex(rep['alt_hex']), kind='replay')
    out['direct'] = dict(bib=vd['bib'], bcb=vd['bcb'], error=vd['error'])
    out['payload'] = out['payload'].hex() if out['payload'] is not None else None
    if rep.get('cert'):
        check_cert(suite, rep, out, vd)
    elif rep.get('wrong_key'):
        if out['delivered'] or not vd['bib'] or any(val != sd.FAILED_SEC for val in vd['bib']):
            chk.fail(signature='C03 / wrong key accepted or failure not reported', what='replay', replay_obj=rep)
    elif cls[0] == 'unaltered':
        if not (out['delivered'] and vd['bib'] and all(val is None for val in vd['bib'])):
            chk.fail(signature='C03 / unmodified bundle does not verify at a receiver holding the right key', what='replay', replay_obj=rep)
        ent['wire'] = bytes.fromhex(rep['wire_hex'])
        check_pairing(suite, ent, rep)
    else:
        oracle(suite, ent, case, cls, out, rep)
    for (sig, info) in suite.pending.items():
        print('PENDING-FINDING reproduced: %s' % sig)
        chk.fail(signature=sig, what=info['what'], replay_obj=rep)
    chk.case(ident=('replay', path), nontrivial=True, sample=dict(replay=os.path.basename(path), cls=cls[0]))
    chk.obligation('replay:ran', True)
    finish_keep_evidence(chk, rule='replay of one stored input')


# --------------------------------------------------------------------------- main

def main():
    chk = Check(PROP, level='proof', description=__doc__)
    if chk.args.replay:
        replay_main(chk, chk.args.replay)
        return
    quick = chk.quick()
    suite = Suite(chk)
    t_start = time.time()
    chk.coq_props()
    t_coq = time.time() - t_start
    trace('coq_props done')
    suite_corpus(suite)
    node = sd.SecNode(sd.DST_ID)
    batch = CoqBatch()
    fin_aad = suite_aad(chk, node, quick, batch)
    trace('aad prepared')
    wires = make_wires(chk, quick)
    fin_structure = suite_structure(chk, [ent for ent in wires if ent['source'] == 'agent'], node, batch)
    suite_baseline(suite, wires)
    suite_mac_kw(suite)
    suite_certs(suite)
    trace('baseline done')
    fin_alt = suite_alterations(suite, wires, quick, batch)
    trace('sweeps done; %d model evaluations' % len(batch.terms))
    batch.run(chk)
    trace('model evaluated')
    fin_aad()
    fin_structure()
    fin_alt()
    for (sig, info) in sorted(suite.pending.items()):
        print('PENDING-FINDING (gated, reported to the coordinator): %s  [%d input(s); first: %s]' % (sig, info['count'], info['what'][:300]))
    chk.finish(
        rule=('aad: random + boundary-directed (bundle, scope, target, security-block header) cases through the real get_external_aad and '
              'Model.BpSec.direct_aad, non-trivial = the real code returned octets for a non-empty scope; e2e: for each of %d bundles '
              '(BIB applied by the real agent: MAC0 HMAC-256/384/512, Sign1 ES256/ES384/PS512, one BIB with three targets; or by the '
              'independent source with 8 AAD scopes / targets, and two / three separate BIBs from different security sources over different '
              'targets; verifiers with accept_after_verify on and off; source agents with 2-3 integrity associations in every order of their '
              'targets (12 permutations of payload / bundle age / hop count, unaltered-verifies + independent target-result pairing check) and '
              'two templates in one association); signer-certificate dimension for Sign1: 10 certificate variants (names the '
              'source / another node / no bundle-EID SAN / DNS-only SAN / untrusted CA / missing or wrong EKU / no digitalSignature / expired / '
              'not yet valid) x key lookup by x5chain and x5t every single-field alteration (cbor2 decode, one item changed/dropped/added, CRCs re-fixed, plus EID-syntax '
              'variants with and without CRC re-fix) and %s single-bit flips (CRCs re-fixed over the altered octets), each run through the real '
              'receive path and verify_bib; distinct = distinct altered octets; non-trivial = class must_fail / must_pass / either by the '
              'property text (malformed / stripped / no-security-block cases are counted but trivial)') % (
                  len(wires), 'a stratified sample (first/last bit and 1-2 random bits of every field, every 12-octet window of long fields) of' if quick else 'all'),
        extra_cov=dict(
            level_note=('proof of the structure (AAD agreement; MAC/signature input injective in exactly the covered content; completeness; '
                        'soundness and wrong-key rejection under the explicit idealised hypothesis mac_inj; outside-scope invariance). '
                        'Unforgeability of HMAC/ECDSA/RSA-PSS/AES-KW and X.509 path validation are NOT proved: they are exercised through '
                        'the real pycose/cryptography/certvalidator in the e2e suite.'),
            pending_findings=[dict(signature=sig, inputs=info['count'], what=info['what'][:400]) for (sig, info) in sorted(suite.pending.items())],
            refuted_or_partial=['C03_wire_primary_refuted (EID normalisation: altered primary-block EID, same authenticated input)',
                                'C03_binding is stated over decoded fields; the wire->field step is not injective (see refuted theorem)'],
            timings=dict(coq_s=round(t_coq, 1)),
            stats=suite.stats,
        ),
        assumptions=[
            'cryptographic soundness (HMAC, ECDSA, RSA-PSS, AES-KW unforgeability; X.509 path validation) is assumed as the Section hypothesis mac_inj / tested with the real libraries, not proved',
            'harness stubs (dbus, GLib virtual context, crcmod, portion ...) and the oscrypto version-regex shim are trusted',
            'pycose installed here is stock 1.1.0, not the fork pinned by pyproject.toml: COSE_Mac (wrapped key) and x5t-only identification cannot be produced by the agent in this environment',
            'Lib.Cbor models cbor2 on the subset used (definite lengths, shortest heads on output); Lib.Crc models crcmod',
            'the bundle is modelled at the CBOR-tree level (Model/Bundle.v of C02 not used); the CRC gate is not modelled (C08)',
        ])


if __name__ == '__main__':
    main()
