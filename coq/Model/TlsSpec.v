(* C15 -- specification of the TLS / peer-authentication policy.

   Written from the property text (and RFC 9174 sections 4.2, 4.4), NOT from the
   code; it does not mention any definition of Gen/TlsPolicy.v.

   Vocabulary.  Identifiers (IP addresses, DNS names, node-ID URIs) are abstract
   values with decidable equality, here [N]; the three kinds live in separate
   lists, so they never mix.  A certificate is given by the three lists of
   subject-alternative names it carries:
       ips  (iPAddress SANs),  dnss (dNSName SANs),  uris (URI SANs).
   What an endpoint knows about its peer ("references"):
       addr : the peer's transport address          (always known),
       dns  : the peer's DNS name, [None] if the endpoint does not know one,
       node : the node ID the peer announced in its SESS_INIT.

   Reading of the property text.

   "no identifier presented in the peer certificate contradicts the peer's
    address, DNS name or announced node ID":
       for each kind, IF the certificate presents identifiers of that kind AND
       the endpoint has a reference of that kind, THEN the reference is one of
       the presented identifiers.  (A certificate speaking about IP addresses
       none of which is the peer's address contradicts the address; a kind the
       certificate is silent about, or for which there is nothing to compare
       with, contradicts nothing.)

   "when host authentication is required, only if the corresponding identifier
    is actually present and matches":
       at least one HOST identifier -- an IP SAN equal to the peer address, or a
       DNS SAN equal to the peer's known DNS name -- is in the certificate.

   "when node authentication is required ...":
       the announced node ID is among the URI SANs.

   Empty identifiers.  The empty string is an identifier like any other
   ([empty_id], the number 0), with these consequences spelled out:
     - a peer that announces an EMPTY node ID still announced a node ID: a
       certificate carrying URI SANs none of which is the (empty) announced ID
       contradicts it, and when node authentication is required the announced ID
       must be among the URI SANs -- an empty ID can only "match" an empty URI
       SAN, never a non-empty one;
     - an empty DNS name is no name: the endpoint then knows no DNS name for its
       peer ([known_dns_name] is [None]), so DNS SANs contradict nothing and can
       authenticate nothing.

   Which DNS name an endpoint knows (RFC 9174 4.4.1/4.4.2: the DNS-ID is checked
   by the entity that looked the peer up by name): the active endpoint, when the
   name it connected to is a (non-empty) name and not the address literal itself;
   a passive endpoint only has the address the connection came from. *)
From Coq Require Import List NArith Bool.
Import ListNotations.

Section Authn.
  Variables (addr : N) (dns : option N) (node : N).
  Variables (ips dnss uris : list N).

  Definition kind_consistent (ref : option N) (presented : list N) : Prop :=
    forall r, ref = Some r -> presented <> [] -> In r presented.

  Definition no_contradiction : Prop :=
    kind_consistent (Some addr) ips /\ kind_consistent dns dnss /\ kind_consistent (Some node) uris.

  Definition host_authenticated : Prop :=
    In addr ips \/ (exists d, dns = Some d /\ In d dnss).

  Definition node_authenticated : Prop := In node uris.

  Definition policy_ok (require_host require_node : bool) : Prop :=
    no_contradiction
    /\ (require_host = true -> host_authenticated)
    /\ (require_node = true -> node_authenticated).

  (* the same, computable (evaluated on every row of the decision table next to
     the Python oracle, to check that both read the property the same way) *)
  Definition memb (r : N) (l : list N) : bool := existsb (N.eqb r) l.
  Definition kind_consistentb (ref : option N) (presented : list N) : bool :=
    match ref, presented with
    | Some r, _ :: _ => memb r presented
    | _, _ => true
    end.
  Definition host_authenticatedb : bool :=
    memb addr ips || match dns with Some d => memb d dnss | None => false end.
  Definition policy_okb (require_host require_node : bool) : bool :=
    kind_consistentb (Some addr) ips && kind_consistentb dns dnss && kind_consistentb (Some node) uris
    && (negb require_host || host_authenticatedb)
    && (negb require_node || memb node uris).
End Authn.

Definition empty_id : N := 0%N.

(* the DNS name an endpoint knows for its peer *)
Definition known_dns_name (passive : bool) (connect_name addr : N) : option N :=
  if passive then None
  else if N.eqb connect_name addr then None
  else if N.eqb connect_name empty_id then None
  else Some connect_name.

(* RFC 9174 section 4.2: the contact header carries one flags octet; CAN_TLS is the bit 0x01 and
   "the remaining bits are reserved" -- a header offers TLS iff bit 0 of its flags octet is set,
   whatever the reserved bits are. *)
Definition offers_tls (flags : N) : bool := N.testbit flags 0.

(* Use of TLS.  "TLS is attempted exactly when both contact headers offer it, a
   node that requires TLS never proceeds in the clear, and one that forbids it
   never proceeds secured": an endpoint that goes on to session negotiation
   (SESS_INIT) does so secured iff both offered, and in agreement with its
   requirement if it has one. *)
Definition tls_use_ok (require_tls : option bool) (this_offers peer_offers secured : bool) : Prop :=
  secured = (this_offers && peer_offers)
  /\ match require_tls with Some r => secured = r | None => True end.

Definition tls_use_okb (require_tls : option bool) (this_offers peer_offers secured : bool) : bool :=
  Bool.eqb secured (this_offers && peer_offers)
  && match require_tls with Some r => Bool.eqb secured r | None => true end.
