(** Proofs about the fragmentation model of Model/BpFrag.v (property C05).
    Everything that depends on the arithmetic of [Fragment._create] is proved
    over the definitions of Gen/FragBudget.v, i.e. against what the source says
    now. *)
From Coq Require Import List NArith ZArith Arith Bool Lia ZifyBool ZifyN ZifyNat.
From DTN Require Import Lib.Bytes Lib.Cbor Lib.CborProofs Lib.Crc Model.Bundle Gen.FragBudget Model.BpFrag.
Import ListNotations.
Local Open Scope Z_scope.

(* no division here: restore the hook ZifyBool installs (Lib.Bytes replaces it by the div/mod one, which
   switches the treatment of boolean goals off) *)
Ltac Zify.zify_post_hook ::= ZifyBool.elim_bool_cstr.

(** * 0. Interface to Gen/FragBudget.v

    The only place where the translated definitions are unfolded: each fact is what the
    rest of the development needs to know about the code's arithmetic, proved by [lia]
    over whatever the translator emitted (so an equivalent rewriting of the source goes
    through, and a change of meaning fails here or in the lemmas that use these). *)

Lemma gen_should s m o f :
  should_fragment s m o f = true <->
  (s = true /\ m < o /\ flag_set f flag_no_fragment = false /\ flag_set f flag_is_fragment = false).
Proof.
  unfold should_fragment. generalize (flag_set f flag_no_fragment) (flag_set f flag_is_fragment). intros x y. lia.
Qed.

Lemma gen_keep off f n :
  keep_block off f n = ((off =? 0) || flag_set f flag_replicate || is_payload_block n).
Proof. unfold keep_block, is_payload_block. generalize (flag_set f flag_replicate). intros x. lia. Qed.

Lemma gen_loop_test off p : frag_loop_test off p = true <-> off < p.
Proof. unfold frag_loop_test. lia. Qed.

Lemma gen_frag_size m n p : frag_size m n p = m - n + 1 - p.
Proof. unfold frag_size. lia. Qed.

Lemma gen_size_bad fs : frag_size_bad fs = false <-> 0 < fs.
Proof. unfold frag_size_bad. lia. Qed.

Lemma gen_offsets off fs :
  frag_slice_lo off fs = off /\ frag_slice_hi off fs = off + fs /\ frag_next_offset off fs = off + fs.
Proof. unfold frag_slice_lo, frag_slice_hi, frag_next_offset. lia. Qed.

Lemma gen_init : frag_init_offset = 0.
Proof. reflexivity. Qed.

Lemma gen_template_btsd : template_btsd = [].
Proof. reflexivity. Qed.

Lemma gen_flags_nonzero : flag_is_fragment <> 0%N.
Proof. discriminate. Qed.

(** * 1. Encoded sizes: [length (tx b) = tx_size b] *)

Lemma arr_small_length l :
  (length l < 24)%nat -> length (encode (CArr l)) = (1 + length (encode_seq l))%nat.
Proof.
  intros H. rewrite encode_arr_length. rewrite head_len_small by lia. reflexivity.
Qed.

Lemma encode_seq_length_app a b : length (encode_seq (a ++ b)) = (length (encode_seq a) + length (encode_seq b))%nat.
Proof. rewrite encode_seq_app, app_length. reflexivity. Qed.

Lemma crc_field_items_length ct z : length (encode_seq (crc_items (crc_field ct z))) = crc_part ct.
Proof.
  unfold crc_field, crc_part.
  destruct (ct =? 1)%N.
  - cbn [crc_items]. rewrite encode_seq_length_cons, encode_seq_nil, encode_bstr_length.
    unfold crc16_x25_field. rewrite be_length. reflexivity.
  - destruct (ct =? 2)%N.
    + cbn [crc_items]. rewrite encode_seq_length_cons, encode_seq_nil, encode_bstr_length.
      unfold crc32c_field. rewrite be_length. reflexivity.
    + reflexivity.
Qed.

Lemma crc_field_items_count ct z : (length (crc_items (crc_field ct z)) <= 1)%nat.
Proof. unfold crc_field. destruct (ct =? 1)%N; [cbn; lia|]. destruct (ct =? 2)%N; cbn; lia. Qed.

Lemma cblock_with_crc_length k : length (encode_cblock (with_crc_block k)) = blk_size k.
Proof.
  unfold encode_cblock, with_crc_block, cblock_items, set_bcrc. cbn [btype bnum bflags bcrc_type btsd bcrc].
  match goal with |- context [crc_field _ ?zz] => set (z := zz) end.
  pose proof (crc_field_items_count (bcrc_type k) z) as Hc.
  rewrite arr_small_length by (rewrite app_length; cbn [length]; lia).
  rewrite encode_seq_length_app, crc_field_items_length.
  rewrite !encode_seq_length_cons, encode_seq_nil, !encode_uint_length, encode_bstr_length.
  unfold blk_size, olen. cbn [length]. lia.
Qed.

Lemma frag_items_length f : length (encode_seq (frag_items f)) = frag_part f.
Proof.
  destruct f as [[o t]|]; cbn [frag_items frag_part].
  - rewrite !encode_seq_length_cons, encode_seq_nil, !encode_uint_length. cbn [length]. lia.
  - reflexivity.
Qed.

Lemma frag_items_count f : (length (frag_items f) <= 2)%nat.
Proof. destruct f as [[o t]|]; cbn; lia. Qed.

Lemma primary_with_crc_length p : length (encode_primary (with_crc_primary p)) = pri_size p.
Proof.
  unfold encode_primary, with_crc_primary, primary_items, set_crc.
  cbn [version flags crc_type dest src report_to create_time create_seq lifetime frag crc].
  match goal with |- context [crc_field _ ?zz] => set (z := zz) end.
  pose proof (crc_field_items_count (crc_type p) z) as Hc.
  pose proof (frag_items_count (frag p)) as Hf.
  rewrite arr_small_length by (rewrite !app_length; cbn [length]; lia).
  rewrite !encode_seq_length_app, crc_field_items_length, frag_items_length.
  rewrite !encode_seq_length_cons, encode_seq_nil, !encode_uint_length.
  rewrite (arr_small_length [CUint (create_time p); CUint (create_seq p)]) by (cbn; lia).
  rewrite !encode_seq_length_cons, encode_seq_nil, !encode_uint_length.
  unfold pri_size, eid_size. cbn [length]. lia.
Qed.

Lemma list_sum_cons x l : list_sum (x :: l) = (x + list_sum l)%nat.
Proof. reflexivity. Qed.

Lemma blocks_seq_length l :
  length (encode_seq (map (fun blk => CArr (cblock_items blk)) (map with_crc_block l))) = list_sum (map blk_size l).
Proof.
  induction l as [|k l IH]; [reflexivity|].
  cbn [map]. rewrite list_sum_cons, encode_seq_length_cons, IH.
  fold (encode_cblock (with_crc_block k)). rewrite cblock_with_crc_length. reflexivity.
Qed.

Theorem tx_length b : Z.of_nat (length (tx b)) = tx_size b.
Proof.
  unfold tx, tx_size, encode_bundle, with_crc_bundle, bundle_items. cbn [prim blocks].
  rewrite encode_indef_arr_length, encode_seq_length_cons, blocks_seq_length.
  fold (encode_primary (with_crc_primary (prim b))). rewrite primary_with_crc_length. lia.
Qed.

(** * 2. Flag words *)

Lemma flag_set_lor w c : c <> 0%N -> flag_set (N.lor w c) c = true.
Proof.
  intros Hc. unfold flag_set. rewrite N.land_lor_distr_l, N.land_diag.
  destruct (N.eqb_spec (N.lor (N.land w c) c) 0) as [E|E]; [|reflexivity].
  apply N.lor_eq_0_iff in E. tauto.
Qed.

(** * 3. Lists: slices and block sums *)

Lemma skipn_skipn {A} (a b : nat) (l : list A) : skipn a (skipn b l) = skipn (b + a) l.
Proof.
  revert l. induction b as [|b IH]; intros l; [reflexivity|].
  destruct l as [|x l]; [now rewrite !skipn_nil|]. cbn [skipn Nat.add]. apply IH.
Qed.

Lemma firstn_length_firstn {A} n (l : list A) : firstn (length (firstn n l)) l = firstn n l.
Proof. revert l. induction n as [|n IH]; intros [|x l]; cbn; f_equal; auto. Qed.

Lemma pyslice_split data (lo hi : Z) :
  0 <= lo <= hi ->
  pyslice data lo hi ++ skipn (Z.to_nat hi) data = skipn (Z.to_nat lo) data.
Proof.
  intros H. unfold pyslice.
  rewrite <- (firstn_skipn (Z.to_nat hi - Z.to_nat lo) (skipn (Z.to_nat lo) data)) at 2.
  rewrite skipn_skipn. do 2 f_equal. lia.
Qed.

Lemma pyslice_length data (lo hi : Z) :
  0 <= lo <= hi ->
  Z.of_nat (length (pyslice data lo hi)) = Z.min (hi - lo) (Z.max 0 (Z.of_nat (length data) - lo)).
Proof.
  intros H. unfold pyslice. rewrite firstn_length, skipn_length. lia.
Qed.

(** the payload blocks among the selected ones *)
Definition npay (l : list cblock) : nat := length (filter is_pay l).

Lemma npay_cons k l : npay (k :: l) = ((if is_pay k then 1 else 0) + npay l)%nat.
Proof. unfold npay. cbn [filter]. destruct (is_pay k); reflexivity. Qed.

Lemma is_pay_set_btsd k d : is_pay (set_btsd k d) = is_pay k.
Proof. reflexivity. Qed.

Lemma is_pay_tmpl k : is_pay (tmpl_blk k) = is_pay k.
Proof. unfold tmpl_blk. destruct (is_pay k) eqn:E; [rewrite is_pay_set_btsd|]; exact E. Qed.

Lemma is_pay_fill d k : is_pay (fill_blk d k) = is_pay k.
Proof. unfold fill_blk. destruct (is_pay k) eqn:E; [rewrite is_pay_set_btsd|]; exact E. Qed.

Lemma npay_map_tmpl l : npay (map tmpl_blk l) = npay l.
Proof. induction l as [|k l IH]; [reflexivity|]. cbn [map]. rewrite !npay_cons, is_pay_tmpl, IH. reflexivity. Qed.

Lemma npay_map_fill d l : npay (map (fill_blk d) l) = npay l.
Proof. induction l as [|k l IH]; [reflexivity|]. cbn [map]. rewrite !npay_cons, is_pay_fill, IH. reflexivity. Qed.

Lemma blk_size_set k d :
  Z.of_nat (blk_size (set_btsd k d)) =
  Z.of_nat (blk_size (set_btsd k [])) - 1 + Z.of_nat (head_len (olen d)) + Z.of_nat (length d).
Proof.
  unfold blk_size, set_btsd, olen. cbn [btype bnum bflags bcrc_type btsd length].
  change (head_len (N.of_nat 0)) with 1%nat. lia.
Qed.

(** size of the blocks after the payload is put into a template whose payload is [template_btsd] *)
Lemma sum_fill d l :
  Z.of_nat (list_sum (map blk_size (map (fill_blk d) (map tmpl_blk l)))) =
  Z.of_nat (list_sum (map blk_size (map tmpl_blk l)))
  + Z.of_nat (npay l) * (Z.of_nat (head_len (olen d)) + Z.of_nat (length d)
                         - Z.of_nat (head_len (olen template_btsd)) - Z.of_nat (length template_btsd)).
Proof.
  induction l as [|k l IH]; [cbn; lia|].
  cbn [map]. rewrite !list_sum_cons, npay_cons. rewrite !Nat2Z.inj_add, IH.
  unfold tmpl_blk at 1 3, fill_blk at 1. destruct (is_pay k) eqn:E.
  - rewrite is_pay_set_btsd, E.
    assert (Hs : set_btsd (set_btsd k template_btsd) d = set_btsd k d) by reflexivity.
    rewrite Hs, (blk_size_set k d), (blk_size_set k template_btsd). lia.
  - rewrite E. lia.
Qed.

Lemma tx_size_fill t d :
  tx_size (fill (mkBundle (prim t) (map tmpl_blk (blocks t))) d) =
  tx_size (mkBundle (prim t) (map tmpl_blk (blocks t)))
  + Z.of_nat (npay (blocks t)) * (Z.of_nat (head_len (olen d)) + Z.of_nat (length d)
                                  - Z.of_nat (head_len (olen template_btsd)) - Z.of_nat (length template_btsd)).
Proof.
  unfold tx_size, fill. cbn [prim blocks].
  pose proof (sum_fill d (blocks t)) as H. lia.
Qed.

(** selection keeps what [keep_block] says *)
Lemma npay_sel off l :
  (forall f n, is_payload_block n = true -> keep_block off f n = true) ->
  npay (sel_blocks off l) = npay l.
Proof.
  intros Hk. induction l as [|k l IH]; [reflexivity|].
  unfold sel_blocks in *. cbn [filter]. destruct (keep_block off (bflags k) (bnum k)) eqn:E.
  - rewrite !npay_cons, IH. reflexivity.
  - rewrite npay_cons, IH. destruct (is_pay k) eqn:P; [|reflexivity].
    unfold is_pay in P. rewrite (Hk _ _ P) in E. discriminate.
Qed.

Lemma keep_payload off f n : is_payload_block n = true -> keep_block off f n = true.
Proof. intros H. rewrite gen_keep, H. apply orb_true_r. Qed.

(** [payload_of] of a filled template *)
Lemma find_fill d l : npay l = 1%nat -> option_map btsd (find is_pay (map (fill_blk d) l)) = Some d.
Proof.
  induction l as [|k l IH]; [discriminate|].
  rewrite npay_cons. cbn [map find]. rewrite is_pay_fill. destruct (is_pay k) eqn:E.
  - intros _. unfold fill_blk. rewrite E. reflexivity.
  - intros H. apply IH. exact H.
Qed.

Lemma find_some_npay l : (1 <= npay l)%nat -> exists k, find is_pay l = Some k /\ is_pay k = true.
Proof.
  induction l as [|k l IH]; [cbn; lia|].
  rewrite npay_cons. cbn [find]. destruct (is_pay k) eqn:E; [eauto|]. intros H. apply IH. lia.
Qed.

(** * 4. The loop *)

Section Loop.
  Variable b : bundle.
  Variable mtu : Z.
  Variable payload : bytes.
  Hypothesis Hone : one_payload b.

  Let plen : Z := Z.of_nat (length payload).
  Let pse : Z := pyld_size_enc payload.

  Lemma template_npay off total : npay (blocks (template b off total)) = 1%nat.
  Proof.
    unfold template. cbn [blocks]. rewrite npay_map_tmpl, npay_sel by (intros; now apply keep_payload). exact Hone.
  Qed.

  Lemma fill_template_size off total d :
    tx_size (fill (template b off total) d) =
    tx_size (template b off total) - 1 + Z.of_nat (head_len (olen d)) + Z.of_nat (length d).
  Proof.
    pose proof (tx_size_fill (mkBundle (frag_primary (prim b) off total) (sel_blocks (Z.of_N off) (blocks b))) d) as H.
    cbn [prim blocks] in H. fold (template b off total) in H. rewrite H.
    rewrite npay_sel by (intros; now apply keep_payload). unfold one_payload in Hone. unfold npay. rewrite Hone.
    rewrite gen_template_btsd. unfold olen. cbn [length]. change (head_len (N.of_nat 0)) with 1%nat. lia.
  Qed.

  Lemma fill_template_data off total d : frag_data (fill (template b off total) d) = d.
  Proof.
    unfold frag_data, payload_of, fill. cbn [blocks]. rewrite find_fill; [reflexivity|]. apply template_npay.
  Qed.

  (** what one fragment of the loop looks like *)
  Definition frag_at (off : Z) (d : bytes) : bundle := fill (template b (Z.to_N off) (olen payload)) d.

  (** the facts about the list the loop returns, from offset [off] on *)
  Fixpoint chain (off : Z) (l : list bundle) : Prop :=
    match l with
    | [] => plen <= off
    | f :: r =>
        exists d, f = frag_at off d /\ 1 <= Z.of_nat (length d) /\ off < plen /\
                  d = firstn (length d) (skipn (Z.to_nat off) payload) /\
                  tx_size f <= mtu /\
                  chain (off + Z.of_nat (length d)) r
    end.

  Lemma frag_loop_chain fuel : forall off l,
    0 <= off ->
    frag_loop fuel b mtu payload pse off = LDone l -> chain off l.
  Proof.
    induction fuel as [|fuel IH]; intros off l Hoff; [discriminate|].
    cbn [frag_loop]. fold plen.
    destruct (frag_loop_test off plen) eqn:Ht.
    2:{ intros E. inversion E; subst. cbn [chain]. pose proof (gen_loop_test off plen). destruct (frag_loop_test off plen); [discriminate|]. lia. }
    set (t := template b (Z.to_N off) (olen payload)).
    set (fs := frag_size mtu (tx_size t) pse).
    destruct (frag_size_bad fs) eqn:Hb; [discriminate|].
    destruct (frag_loop fuel b mtu payload pse (frag_next_offset off fs)) as [| |r] eqn:Hr; try discriminate.
    intros E. inversion E; subst l. clear E.
    apply gen_loop_test in Ht. apply gen_size_bad in Hb.
    assert (Hfs : 0 < fs) by lia.
    destruct (gen_offsets off fs) as (Hlo & Hhi & Hnext).
    set (d := pyslice payload (frag_slice_lo off fs) (frag_slice_hi off fs)).
    assert (Hlen : Z.of_nat (length d) = Z.min fs (plen - off)).
    { unfold d. rewrite pyslice_length by lia. fold plen. lia. }
    cbn [chain]. exists d. split; [reflexivity|]. split; [lia|]. split; [lia|]. split.
    { unfold d, pyslice. rewrite Hlo. symmetry. apply firstn_length_firstn. }
    split.
    { pose proof (fill_template_size (Z.to_N off) (olen payload) d) as Hsz. fold t in Hsz. rewrite Hsz.
      assert (Hh : (head_len (olen d) <= head_len (olen payload))%nat).
      { apply head_len_mono. unfold olen. fold plen in Hlen. unfold plen in *. lia. }
      pose proof (gen_frag_size mtu (tx_size t) pse) as Hsize. fold fs in Hsize.
      unfold pse, pyld_size_enc in *. lia. }
    rewrite Hnext in Hr.
    destruct (Z.le_gt_cases fs (plen - off)) as [Hle|Hgt].
    - replace (off + Z.of_nat (length d)) with (off + fs) by lia. apply IH; [lia|exact Hr].
    - (* last fragment: the loop ends at the next test *)
      assert (Hr' : r = []).
      { destruct fuel as [|fuel']; [discriminate|]. cbn [frag_loop] in Hr. fold plen in Hr.
        pose proof (gen_loop_test (off + fs) plen) as Hlt.
        destruct (frag_loop_test (off + fs) plen); [lia|]. now inversion Hr. }
      subst r. cbn [chain]. lia.
  Qed.

  (** enough fuel: every round advances by at least one octet *)
  Lemma frag_loop_fuel fuel : forall off,
    0 <= off -> (Z.to_nat (plen - off) < fuel)%nat ->
    frag_loop fuel b mtu payload pse off <> LFuel.
  Proof.
    induction fuel as [|fuel IH]; intros off Hoff Hf; [lia|].
    cbn [frag_loop]. fold plen.
    destruct (frag_loop_test off plen) eqn:Ht; [|discriminate].
    set (fs := frag_size mtu _ pse).
    destruct (frag_size_bad fs) eqn:Hb; [discriminate|].
    apply gen_loop_test in Ht. apply gen_size_bad in Hb.
    destruct (gen_offsets off fs) as (_ & _ & Hnext).
    specialize (IH (frag_next_offset off fs)).
    destruct (frag_loop fuel b mtu payload pse (frag_next_offset off fs)); try discriminate.
    exfalso. apply IH; [|  |reflexivity]; rewrite Hnext; lia.
  Qed.

  (** consequences of [chain] *)
  Lemma chain_concat : forall l off, 0 <= off -> chain off l ->
    concat (map frag_data l) = skipn (Z.to_nat off) payload.
  Proof.
    induction l as [|f r IH]; intros off Hoff H.
    - cbn [chain map concat] in *. rewrite skipn_all2; [reflexivity|]. unfold plen in H. lia.
    - cbn [chain] in H. destruct H as (d & -> & Hd1 & Hlt & Hd & _ & Hr).
      cbn [map concat]. unfold frag_at. rewrite fill_template_data.
      rewrite (IH (off + Z.of_nat (length d))) by (lia || exact Hr).
      rewrite <- (firstn_skipn (length d) (skipn (Z.to_nat off) payload)) at 1.
      rewrite <- Hd. rewrite skipn_skipn. do 2 f_equal. lia.
  Qed.

  Lemma frag_at_off off d : 0 <= off -> frag_off (frag_at off d) = Z.to_N off.
  Proof. reflexivity. Qed.

  Lemma chain_offsets : forall l off, 0 <= off -> chain off l -> offsets_from (Z.to_N off) l.
  Proof.
    induction l as [|f r IH]; intros off Hoff H; [exact I|].
    cbn [chain] in H. destruct H as (d & -> & Hd1 & Hlt & Hd & _ & Hr).
    cbn [offsets_from]. split; [reflexivity|].
    unfold frag_at at 1. rewrite fill_template_data.
    replace (Z.to_N off + olen d)%N with (Z.to_N (off + Z.of_nat (length d))) by (unfold olen; lia).
    apply IH; [lia|exact Hr].
  Qed.

  Lemma chain_forall (Q : bundle -> Prop) : forall l off, 0 <= off -> chain off l ->
    (forall o d, 0 <= o -> o < plen -> 1 <= Z.of_nat (length d) -> tx_size (frag_at o d) <= mtu -> Q (frag_at o d)) ->
    Forall Q l.
  Proof.
    induction l as [|f r IH]; intros off Hoff H HQ; [constructor|].
    cbn [chain] in H. destruct H as (d & -> & Hd1 & Hlt & Hd & Hsz & Hr).
    constructor; [apply HQ; assumption|]. apply (IH (off + Z.of_nat (length d))); [lia|exact Hr|exact HQ].
  Qed.

  Lemma chain_length : forall l off, 0 <= off -> chain off l -> Z.of_nat (length l) <= Z.max 0 (plen - off).
  Proof.
    induction l as [|f r IH]; intros off Hoff H; [cbn; lia|].
    cbn [chain] in H. destruct H as (d & -> & Hd1 & Hlt & Hd & _ & Hr).
    specialize (IH (off + Z.of_nat (length d)) ltac:(lia) Hr). cbn [length]. lia.
  Qed.
End Loop.

(** * 5. The chain step *)

Lemma payload_of_one b : one_payload b -> exists pd, payload_of b = Some pd.
Proof.
  intros H. unfold payload_of. destruct (find_some_npay (blocks b)) as (k & -> & _).
  - unfold npay. unfold one_payload in H. lia.
  - eexists. reflexivity.
Qed.

(** the step answers [Frags l]: all facts about [l] at once *)
Lemma fragment_step_frags b m l :
  one_payload b ->
  fragment_step b (Some m) = Frags l ->
  exists pd, payload_of b = Some pd /\ chain b (Z.of_N m) pd 0 l /\
             should_fragment true (Z.of_N m) (tx_size b) (flags (prim b)) = true.
Proof.
  intros Hone. unfold fragment_step.
  destruct (should_fragment true (Z.of_N m) (tx_size b) (flags (prim b))) eqn:Hs; [|discriminate].
  destruct (payload_of b) as [pd|] eqn:Hp; [|discriminate].
  destruct (non_pyld_too_big _ _); [discriminate|].
  destruct (frag_loop _ _ _ _ _ _) as [| |r] eqn:Hl; try discriminate.
  intros E. inversion E; subst r. exists pd. split; [reflexivity|]. split; [|reflexivity].
  rewrite gen_init in Hl. apply (frag_loop_chain b (Z.of_N m) pd Hone) in Hl; [exact Hl|lia].
Qed.

Lemma fragment_step_not_stuck b mtu : fragment_step b mtu <> Stuck.
Proof.
  unfold fragment_step.
  destruct (should_fragment _ _ _ _); [|discriminate].
  destruct (payload_of b) as [pd|]; [|discriminate].
  destruct (non_pyld_too_big _ _); [discriminate|].
  destruct (frag_loop _ _ _ _ _ _) eqn:Hl; try discriminate.
  exfalso. revert Hl. rewrite gen_init. apply frag_loop_fuel; lia.
Qed.

(** an existing fragment, a do-not-fragment bundle, a bundle that fits, a route without MTU *)
Lemma fragment_step_unchanged b mtu :
  mtu = None \/ flag_set (flags (prim b)) flag_no_fragment = true \/ flag_set (flags (prim b)) flag_is_fragment = true
  \/ (exists m, mtu = Some m /\ tx_size b <= Z.of_N m) ->
  fragment_step b mtu = Unchanged.
Proof.
  intros H. unfold fragment_step.
  match goal with |- context [should_fragment ?s ?m ?o ?f] => destruct (should_fragment s m o f) eqn:E end; [|reflexivity].
  exfalso. apply gen_should in E. destruct E as (E1 & E2 & E3 & E4).
  destruct H as [-> | [H | [H | (m & -> & H)]]]; [discriminate|congruence|congruence|lia].
Qed.

Lemma frag_at_is_fragment b pd o d :
  flag_set (flags (prim (frag_at b pd o d))) flag_is_fragment = true.
Proof. cbn. apply flag_set_lor. exact gen_flags_nonzero. Qed.

(** * 6. One send request *)

Section Send.
  Variable sec : bundle -> bundle.
  (** the security step leaves fragments alone *)
  Hypothesis sec_frag : forall f, flag_set (flags (prim f)) flag_is_fragment = true -> sec f = f.

  Lemma reenter_fragment mtu b pd o d :
    reenter sec mtu (frag_at b pd o d) = [tx (frag_at b pd o d)].
  Proof.
    unfold reenter. rewrite sec_frag by apply frag_at_is_fragment.
    rewrite fragment_step_unchanged; [reflexivity|]. right. right. left. apply frag_at_is_fragment.
  Qed.

  Lemma chain_reenter b m pd : forall l off, 0 <= off -> chain b m pd off l ->
    concat (map (reenter sec (Some (Z.to_N m))) l) = map tx l.
  Proof.
    induction l as [|f r IH]; intros off Hoff H; [reflexivity|].
    cbn [chain] in H. destruct H as (d & -> & Hd1 & Hlt & Hd & _ & Hr).
    cbn [map concat]. rewrite reenter_fragment. cbn [app]. f_equal. apply (IH (off + Z.of_nat (length d))); [lia|exact Hr].
  Qed.

  Lemma send_request_frags b m l :
    one_payload (sec b) ->
    fragment_step (sec b) (Some m) = Frags l ->
    send_request sec b (Some m) = map tx l.
  Proof.
    intros Hone Hf. unfold send_request. rewrite Hf.
    destruct (fragment_step_frags _ _ _ Hone Hf) as (pd & _ & Hc & _).
    rewrite <- (N2Z.id m) at 1. apply (chain_reenter _ _ _ _ 0 ltac:(lia) Hc).
  Qed.

  Theorem within_mtu_sec b m :
    frag_allowed (sec b) -> one_payload (sec b) ->
    Forall (fun o => Z.of_nat (length o) <= Z.of_N m) (send_request sec b (Some m)).
  Proof.
    intros [Hnf Hif] Hone.
    destruct (fragment_step (sec b) (Some m)) as [| | |l|] eqn:Hf.
    - (* unchanged: it fits *)
      unfold send_request. rewrite Hf. constructor; [|constructor]. rewrite tx_length.
      unfold fragment_step in Hf.
      destruct (should_fragment true (Z.of_N m) (tx_size (sec b)) (flags (prim (sec b)))) eqn:Hs.
      + destruct (payload_of (sec b)); [|discriminate]. destruct (non_pyld_too_big _ _); [discriminate|].
        destruct (frag_loop _ _ _ _ _ _); discriminate.
      + destruct (Z.le_gt_cases (tx_size (sec b)) (Z.of_N m)) as [Hle|Hgt]; [exact Hle|].
        exfalso. assert (Ht : should_fragment true (Z.of_N m) (tx_size (sec b)) (flags (prim (sec b))) = true)
          by (apply gen_should; repeat split; [lia|assumption|assumption]).
        congruence.
    - (* no payload block: excluded *)
      exfalso. destruct (payload_of_one _ Hone) as (pd & Hp). unfold fragment_step in Hf.
      destruct (should_fragment _ _ _ _); [|discriminate]. rewrite Hp in Hf.
      destruct (non_pyld_too_big _ _); [discriminate|]. destruct (frag_loop _ _ _ _ _ _); discriminate.
    - unfold send_request. rewrite Hf. constructor.
    - rewrite (send_request_frags _ _ _ Hone Hf).
      destruct (fragment_step_frags _ _ _ Hone Hf) as (pd & _ & Hc & _).
      apply Forall_map.
      apply (chain_forall (sec b) (Z.of_N m) pd (fun f => Z.of_nat (length (tx f)) <= Z.of_N m) l 0 ltac:(lia) Hc).
      intros o d _ _ _ Hsz. rewrite tx_length. exact Hsz.
    - exfalso. exact (fragment_step_not_stuck _ _ Hf).
  Qed.
End Send.

Lemma no_sec_frag : forall f, flag_set (flags (prim f)) flag_is_fragment = true -> no_sec f = f.
Proof. reflexivity. Qed.

(** * 7. The statements of Props/C05.v *)

Lemma filter_all {A} (f : A -> bool) l : (forall x, f x = true) -> filter f l = l.
Proof. intros H. induction l as [|x l IH]; [reflexivity|]. cbn [filter]. rewrite H, IH. reflexivity. Qed.

Lemma strip_fill_tmpl d k : strip (fill_blk d (tmpl_blk k)) = strip k.
Proof.
  unfold strip. rewrite is_pay_fill, is_pay_tmpl. unfold fill_blk, tmpl_blk.
  destruct (is_pay k) eqn:E; [rewrite is_pay_set_btsd, E; reflexivity|]. rewrite E. reflexivity.
Qed.

Lemma strip_blocks_frag_at b pd off d :
  0 <= off ->
  map strip (blocks (frag_at b pd off d)) =
  map strip (if (Z.to_N off =? 0)%N then blocks b else filter (fun k => replicated k || is_pay k) (blocks b)).
Proof.
  intros Hoff. unfold frag_at, fill, template. cbn [blocks]. rewrite !map_map.
  rewrite (map_ext _ strip) by (intros; apply strip_fill_tmpl).
  f_equal. unfold sel_blocks. rewrite Z2N.id by exact Hoff.
  destruct (N.eqb_spec (Z.to_N off) 0) as [E|E].
  - apply filter_all. intros k. rewrite gen_keep. replace off with 0 by lia. reflexivity.
  - apply filter_ext. intros k. rewrite gen_keep. unfold replicated, is_pay.
    destruct (off =? 0) eqn:Z0; [lia|]. reflexivity.
Qed.

Theorem frags_tiling b m l pd :
  one_payload b -> fragment_step b (Some m) = Frags l -> payload_of b = Some pd ->
  concat (map frag_data l) = pd /\ offsets_from 0 l /\ Forall (fun f => frag_total f = Some (olen pd)) l.
Proof.
  intros Hone Hf Hp. destruct (fragment_step_frags _ _ _ Hone Hf) as (pd' & Hp' & Hc & _).
  rewrite Hp in Hp'. inversion Hp'; subst pd'. split; [|split].
  - apply (chain_concat b (Z.of_N m) pd Hone l 0 ltac:(lia) Hc).
  - apply (chain_offsets b (Z.of_N m) pd Hone l 0 ltac:(lia) Hc).
  - apply (chain_forall b (Z.of_N m) pd _ l 0 ltac:(lia) Hc). intros; reflexivity.
Qed.

Theorem frags_progress b m l pd :
  one_payload b -> fragment_step b (Some m) = Frags l -> payload_of b = Some pd ->
  Forall (fun f => (1 <= length (frag_data f))%nat) l /\ (length l <= length pd)%nat.
Proof.
  intros Hone Hf Hp. destruct (fragment_step_frags _ _ _ Hone Hf) as (pd' & Hp' & Hc & _).
  rewrite Hp in Hp'. inversion Hp'; subst pd'. split.
  - apply (chain_forall b (Z.of_N m) pd _ l 0 ltac:(lia) Hc). intros o d _ _ Hd _.
    unfold frag_at. rewrite (fill_template_data b Hone). lia.
  - pose proof (chain_length b (Z.of_N m) pd l 0 ltac:(lia) Hc). lia.
Qed.

Theorem frags_identity_blocks b m l :
  one_payload b -> fragment_step b (Some m) = Frags l ->
  Forall (fun f =>
            version (prim f) = version (prim b) /\ crc_type (prim f) = crc_type (prim b) /\
            dest (prim f) = dest (prim b) /\ src (prim f) = src (prim b) /\ report_to (prim f) = report_to (prim b) /\
            create_time (prim f) = create_time (prim b) /\ create_seq (prim f) = create_seq (prim b) /\
            lifetime (prim f) = lifetime (prim b) /\
            flags (prim f) = N.lor (flags (prim b)) flag_is_fragment /\
            flag_set (flags (prim f)) flag_is_fragment = true /\
            map strip (blocks f) =
            map strip (if (frag_off f =? 0)%N then blocks b
                       else filter (fun k => replicated k || is_pay k) (blocks b))) l.
Proof.
  intros Hone Hf. destruct (fragment_step_frags _ _ _ Hone Hf) as (pd & Hp & Hc & _).
  apply (chain_forall b (Z.of_N m) pd _ l 0 ltac:(lia) Hc). intros o d Ho _ _ _.
  repeat (split; [reflexivity|]). split; [apply frag_at_is_fragment|].
  rewrite (frag_at_off b pd o d Ho). apply strip_blocks_frag_at. exact Ho.
Qed.

(** the first fragment is the one at offset 0; every later one starts further on *)
Lemma offsets_increasing : forall l off,
  offsets_from off l -> Forall (fun f => (1 <= length (frag_data f))%nat) l ->
  Forall (fun f => (off <= frag_off f)%N) l.
Proof.
  induction l as [|f r IH]; intros off H Hp; [constructor|].
  cbn [offsets_from] in H. destruct H as [Ho Hr]. inversion Hp as [|? ? Hf Hpr]; subst.
  constructor; [lia|]. specialize (IH _ Hr Hpr). revert IH. apply Forall_impl. intros g Hg. unfold olen in Hg. lia.
Qed.

Theorem frags_first_offset b m f l pd :
  one_payload b -> fragment_step b (Some m) = Frags (f :: l) -> payload_of b = Some pd ->
  frag_off f = 0%N /\ Forall (fun g => (0 < frag_off g)%N) l.
Proof.
  intros Hone Hf Hp.
  destruct (frags_tiling _ _ _ _ Hone Hf Hp) as (_ & Ho & _).
  destruct (frags_progress _ _ _ _ Hone Hf Hp) as (Hpr & _).
  cbn [offsets_from] in Ho. destruct Ho as [Ho Hr]. split; [exact Ho|].
  inversion Hpr as [|? ? Hf1 Hprr]; subst.
  pose proof (offsets_increasing _ _ Hr Hprr) as H. revert H. apply Forall_impl. intros g Hg. unfold olen in Hg. lia.
Qed.

(** ** the whole send request *)

Theorem send_unchanged sec b mtu :
  mtu = None \/ flag_set (flags (prim (sec b))) flag_no_fragment = true
  \/ flag_set (flags (prim (sec b))) flag_is_fragment = true
  \/ (exists m, mtu = Some m /\ tx_size (sec b) <= Z.of_N m) ->
  send_request sec b mtu = [tx (sec b)].
Proof. intros H. unfold send_request. rewrite (fragment_step_unchanged _ _ H). reflexivity. Qed.

(** must be split: the output is the complete fragment list or nothing at all *)
Theorem send_all_or_nothing sec b m :
  (forall f, flag_set (flags (prim f)) flag_is_fragment = true -> sec f = f) ->
  frag_allowed (sec b) -> one_payload (sec b) -> Z.of_N m < tx_size (sec b) ->
  send_request sec b (Some m) = [] \/
  exists l, fragment_step (sec b) (Some m) = Frags l /\ send_request sec b (Some m) = map tx l.
Proof.
  intros Hsec [Hnf Hif] Hone Hbig.
  destruct (fragment_step (sec b) (Some m)) as [| | |l|] eqn:Hf.
  - exfalso. unfold fragment_step in Hf.
    destruct (should_fragment true (Z.of_N m) (tx_size (sec b)) (flags (prim (sec b)))) eqn:Hs.
    + destruct (payload_of (sec b)); [|discriminate]. destruct (non_pyld_too_big _ _); [discriminate|].
      destruct (frag_loop _ _ _ _ _ _); discriminate.
    + assert (Ht : should_fragment true (Z.of_N m) (tx_size (sec b)) (flags (prim (sec b))) = true)
        by (apply gen_should; repeat split; [lia|assumption|assumption]).
      congruence.
  - exfalso. destruct (payload_of_one _ Hone) as (pd & Hp). unfold fragment_step in Hf.
    destruct (should_fragment _ _ _ _); [|discriminate]. rewrite Hp in Hf.
    destruct (non_pyld_too_big _ _); [discriminate|]. destruct (frag_loop _ _ _ _ _ _); discriminate.
  - left. unfold send_request. rewrite Hf. reflexivity.
  - right. exists l. split; [reflexivity|]. apply (send_request_frags sec Hsec _ _ _ Hone Hf).
  - exfalso. exact (fragment_step_not_stuck _ _ Hf).
Qed.

(** no room for a single payload octet next to the first fragment's blocks: nothing is sent *)
Theorem send_infeasible sec b m pd :
  frag_allowed (sec b) -> payload_of (sec b) = Some pd -> Z.of_N m < tx_size (sec b) ->
  Z.of_N m < tx_size (template (sec b) 0 (olen pd)) + pyld_size_enc pd ->
  send_request sec b (Some m) = [].
Proof.
  intros [Hnf Hif] Hp Hbig Hroom. unfold send_request, fragment_step.
  assert (Hs : should_fragment true (Z.of_N m) (tx_size (sec b)) (flags (prim (sec b))) = true).
  { apply gen_should. repeat split; [lia|assumption|assumption]. }
  rewrite Hs, Hp.
  destruct (non_pyld_too_big _ _); [reflexivity|].
  rewrite gen_init. cbn [frag_loop].
  destruct (frag_loop_test 0 (Z.of_nat (length pd))) eqn:Ht; [|reflexivity].
  change (Z.to_N 0) with 0%N.
  match goal with |- context [frag_size_bad ?x] => destruct (frag_size_bad x) eqn:Hb end; [reflexivity|].
  exfalso. apply gen_size_bad in Hb. rewrite gen_frag_size in Hb. lia.
Qed.

Theorem frags_within_mtu b m l :
  one_payload b -> fragment_step b (Some m) = Frags l ->
  Forall (fun f => Z.of_nat (length (tx f)) <= Z.of_N m) l.
Proof.
  intros Hone Hf. destruct (fragment_step_frags _ _ _ Hone Hf) as (pd & _ & Hc & _).
  apply (chain_forall b (Z.of_N m) pd _ l 0 ltac:(lia) Hc). intros o d _ _ _ Hsz. rewrite tx_length. exact Hsz.
Qed.

Theorem within_mtu_plain b m :
  frag_allowed b -> one_payload b ->
  Forall (fun o => Z.of_nat (length o) <= Z.of_N m) (send_request no_sec b (Some m)).
Proof. intros Ha Ho. apply (within_mtu_sec no_sec no_sec_frag b m Ha Ho). Qed.

(** every hand-off of every send of a history is within the MTU in force at that send *)
Theorem history_within_mtu b (ms : list N) :
  frag_allowed b -> one_payload b ->
  Forall (fun p : N * list bytes => Forall (fun o => Z.of_nat (length o) <= Z.of_N (fst p)) (snd p))
         (combine ms (send_history no_sec b (map Some ms))).
Proof.
  intros Ha Ho. unfold send_history. induction ms as [|m ms IH]; [constructor|].
  cbn [map combine]. constructor; [|exact IH]. cbn [fst snd]. apply within_mtu_plain; assumption.
Qed.

(** * 8. A security step that adds a block to whatever passes: the refutation witness *)

Lemma fold_max_ge l : forall a, (a <= fold_left (fun acc k => N.max acc (bnum k)) l a)%N.
Proof. induction l as [|k l IH]; intros a; cbn [fold_left]; [lia|]. specialize (IH (N.max a (bnum k))). lia. Qed.

Lemma find_skip {A} (p : A -> bool) x : forall a c, p x = false -> find p (a ++ x :: c) = find p (a ++ c).
Proof.
  induction a as [|y a IH]; intros c H; cbn [app find]; [rewrite H; reflexivity|].
  destruct (p y); [reflexivity|]. apply IH. exact H.
Qed.

Lemma add_bib_benign k f : prim (add_bib k f) = prim f /\ payload_of (add_bib k f) = payload_of f.
Proof.
  split; [reflexivity|]. unfold payload_of, add_bib. cbn [blocks app].
  rewrite find_skip.
  - rewrite firstn_skipn. reflexivity.
  - unfold is_pay, is_payload_block, block_num_payload. cbn [bnum].
    pose proof (fold_max_ge (blocks f) 1%N) as H. unfold max_num.
    destruct (N.eqb_spec (fold_left (fun acc k0 => N.max acc (bnum k0)) (blocks f) 1%N + 1) 1); [lia|reflexivity].
Qed.

Lemma not_forall_by_forallb (m : N) (outs : list bytes) :
  forallb (fun o => Z.of_nat (length o) <=? Z.of_N m) outs = false ->
  ~ Forall (fun o => Z.of_nat (length o) <= Z.of_N m) outs.
Proof.
  intros H F. rewrite Forall_forall in F.
  assert (E : forallb (fun o => Z.of_nat (length o) <=? Z.of_N m) outs = true).
  { apply forallb_forall. intros x Hx. apply Z.leb_le. apply F. exact Hx. }
  congruence.
Qed.

(** a sample bundle: dtn://me/ -> dtn://far/svc, CRC-32C, a replicated and a plain extension block,
    [n] octets of payload *)
Definition sample (n : nat) : bundle :=
  mkBundle (mkPrimary 7 0 2 (EidDtn [47; 47; 102; 97; 114; 47; 115; 118; 99]%N) (EidDtn [47; 47; 109; 101; 47]%N) EidDtnNone
                      799999990000 3 3600000 None None)
           [mkCBlock 194 2 1 2 (gdata 5 7) None; mkCBlock 193 3 0 1 (gdata 6 9) None; mkCBlock 1 1 0 2 (gdata 7 n) None].

Lemma sec_refuted :
  exists (sec : bundle -> bundle) (b : bundle) (m : N),
    (forall f, prim (sec f) = prim f /\ payload_of (sec f) = payload_of f) /\
    frag_allowed (sec b) /\ one_payload (sec b) /\
    ~ Forall (fun o => Z.of_nat (length o) <= Z.of_N m) (send_request sec b (Some m)).
Proof.
  exists (add_bib 71), (sample 600), 250%N. split; [apply add_bib_benign|]. split; [split; reflexivity|]. split; [reflexivity|].
  apply not_forall_by_forallb. vm_compute. reflexivity.
Qed.
