''' Property C08 - Block CRCs are always valid on output and always checked on input.

  1. proof obligations: coq/Props/C08.v (rebuilt with everything it depends on, including Gen/CrcTable.v
     regenerated from bp/encoding/blocks.py by translate/targets/crctable.py);
  2. witnesses of the known findings (harness/corpus/C08_reencoding_witnesses.json) replayed through the
     real ``Agent.recv_bundle``;
  3. translator cross-check: Gen/CrcTable.gen_crc_field against the live ``AbstractBlock.CRC_DEFN`` and the
     independent CRC of this file;
  4. transmit side: bundles the real agent hands to the convergence layer (local send, forward, status
     reports, fragments; every CRC-type assignment): every block's CRC recomputed by an independent
     polynomial-division CRC written here and by the Coq model (``BundleCrc.run_tx``), type-0 blocks carry
     no CRC item;
  5. receive side: N valid bundles x EVERY single-bit flip + sampled/directed bursts (<= 16 / 32 bits)
     inside CRC-protected blocks -> real ``Agent.recv_bundle``: must be dropped before the seen set,
     routing, delivery, forwarding or reporting; verdicts compared with the model (``BundleCrc.run_rx``:
     lax and strict reading) wherever the model takes a position;
  6. witness hunts for the proof-forced gap (CRC checked over the re-encoding of the decoded block).

Oracle (from the property text / RFC 9171 4.2.1, not from the code): a received bundle in which an
INDEPENDENT receiver - CRC recomputed over the received octets of each block with the value zeroed - finds
a mismatch (or cannot find the block structure) must cause no effect at all.
'''
import env                      # noqa: F401  FIRST
import hashlib
import io
import json
import multiprocessing
import os
import resource
import sys
import time

import cbor2

from common import Check, CoqError, coq_bytes, VERIF
env.shim_oscrypto()
import bpdrive                  # noqa: E402
import bundlegen as bg          # noqa: E402

PROP = 'C08'
NODE = 'dtn://me/'
RX_ROUTES = [['^dtn://me/.*', 'deliver'], ['^dtn://void/.*', 'delete'], ['.*', 'forward']]
TX_ROUTES = [dict(pattern='^dtn://frag/.*', next_nodeid='dtn://hop2/', cl_type='fake', mtu=160),
             dict(pattern='^dtn://nowhere/.*', next_nodeid='dtn://hop3/', cl_type='absent', mtu=None),
             dict(pattern='.*', next_nodeid='dtn://hop/', cl_type='fake', mtu=None)]
NOW_MS = 800000000000

SIG_COLLIDE = 'C08 / CRC checked over re-encoding: value-changing flip with colliding re-encoding (BTSD bstr->tstr decodes to null)'
SIG_SAME = 'C08 / CRC checked over re-encoding: value-preserving non-canonical item (true/false/array-of-ints/... read as the same uint/bstr)'
SIG_EID = "C08 / CRC checked over re-encoding: altered EID normalised back by the text conversion (dtn SSP '/' -> '?' or '#', urlsplit drops query/fragment)"
SIG_SWALLOW = 'C08 / CRC checked over re-encoding: block array head count raised, following block swallowed as an ignored extra item (bundle accepted without it)'
SIG_TYPE0 = 'C08 / CRC checked over re-encoding: CRC type flipped to 0, left-over CRC item ignored (block accepted unchecked)'
# Genuine defects reported to the coordinator that are possibly not (yet) in known_findings.json: printed as
# PENDING-FINDING without failing the run; once listed they are ordinary KNOWN-FINDINGs.
PENDING_FINDINGS = []
# The two "left-over item" findings exist in the unchanged tree ONLY for the bundle age block (type 7): its BTSD class
# (a CborItem with a UintField) swallows the left-over item list; for every other block type scapy's payload
# dissection raises and the bundle is dropped.  The same acceptance for any other block type is a new violation.
LEFTOVER_TOLERANT_TYPES = (7,)
KNOWN_SIGS = (SIG_COLLIDE, SIG_SAME, SIG_EID, SIG_SWALLOW, SIG_TYPE0)
CORPUS = os.path.join(VERIF, 'harness', 'corpus', 'C08_reencoding_witnesses.json')

CRC_W = {1: 2, 2: 4}
MEM_CAP = 3 << 29       # 1.5 GiB of address space per process while the agent handles corrupted input
GEN = {1: 0x11021, 2: 0x11EDC6F41}      # x^16+x^12+x^5+1 ; Castagnoli


# ------------------------------------------------------------------------------------------------
# independent CRC: polynomial long division over GF(2) (RFC 9171 4.2.1 -> ITU X.25 / RFC 4960 app. B),
# no table, no shift register, nothing shared with harness/stubs/crcmod or bpdrive

def crc_poly(data, ctype):
    width = 8 * CRC_W[ctype]
    gen = GEN[ctype]
    msg = 0
    for octet in bytes(data):
        for k in range(8):                      # least significant bit of each octet first
            msg = (msg << 1) | ((octet >> k) & 1)
    total = 8 * len(data) + width
    msg <<= width                               # times x^w
    ones = (1 << width) - 1
    msg ^= ones << (total - width)              # preset: first w coefficients complemented
    for pos in range(total - 1, width - 1, -1):
        if (msg >> pos) & 1:
            msg ^= gen << (pos - width)
    rem = msg ^ ones                            # final complement
    out = 0
    for k in range(width):                      # x^(w-1) coefficient is bit 0 (reflected read-out)
        if (rem >> (width - 1 - k)) & 1:
            out |= 1 << k
    return out


assert crc_poly(b'123456789', 1) == 0x906E and crc_poly(b'123456789', 2) == 0xE3069283
assert crc_poly(b'', 1) == 0 and crc_poly(b'', 2) == 0


def crc_value_octets(block_octets, ctype):
    size = CRC_W[ctype]
    return crc_poly(block_octets[:-size] + b'\x00' * size, ctype).to_bytes(size, 'big')


def is_uint(val):
    return isinstance(val, int) and not isinstance(val, bool) and val >= 0


def block_views(raw):
    ''' Octet ranges and CRC facts of every block as an independent receiver sees them.
    :return: list of dict(idx, start, end, octets, item, ctype, n_items, problems=[...], stored, computed) '''
    parts = bg.split_items(raw)
    out = []
    pos = 1
    for (idx, (item, octets)) in enumerate(parts):
        ent = dict(idx=idx, start=pos, end=pos + len(octets), octets=octets, item=item, problems=[], ctype=None,
                   stored=None, computed=None)
        pos += len(octets)
        out.append(ent)
        if not isinstance(item, list):
            ent['problems'].append('block is not an array')
            continue
        ent['n_items'] = len(item)
        cpos = 2 if idx == 0 else 3
        base = 8 if idx == 0 else 5
        if len(item) <= cpos or not is_uint(item[cpos]):
            ent['problems'].append('no CRC type item')
            continue
        ctype = item[cpos]
        ent['ctype'] = ctype
        if ctype not in (0, 1, 2):
            ent['problems'].append('CRC type %r' % (ctype,))
            continue
        if idx == 0:
            if not is_uint(item[1]):
                ent['problems'].append('bundle flags not uint')
                continue
            base += 2 if item[1] & 1 else 0
        want = base + (1 if ctype else 0)
        if len(item) != want:
            ent['problems'].append('%d items, expected %d for CRC type %d' % (len(item), want, ctype))
            continue
        if ctype:
            size = CRC_W[ctype]
            if not (isinstance(item[-1], bytes) and len(item[-1]) == size and octets[-size - 1] == 0x40 + size
                    and octets[-size:] == item[-1]):
                ent['problems'].append('CRC item is not a %d-octet byte string' % size)
                continue
            ent['stored'] = octets[-size:]
            ent['computed'] = crc_value_octets(octets, ctype)
            if ent['stored'] != ent['computed']:
                ent['problems'].append('CRC mismatch: carries %s, CRC of the block with the field zeroed is %s'
                                       % (ent['stored'].hex(), ent['computed'].hex()))
    return out


def indep_verdict(raw):
    ''' 'ok' when an independent receiver finds every block CRC right on these octets. '''
    try:
        views = block_views(raw)
    except Exception as err:
        return 'undecodable: %s' % err.__class__.__name__
    if not views:
        return 'no blocks'
    for ent in views:
        if ent['problems']:
            return 'block %d: %s' % (ent['idx'], ent['problems'][0])
    return 'ok'


# ------------------------------------------------------------------------------------------------
# the real agent

_DRV = [None]


def new_driver():
    _DRV[0] = bpdrive.BpDriver(node_id=NODE, rx_routes=[tuple(item) for item in RX_ROUTES], tx_routes=TX_ROUTES,
                               clock=bpdrive.Clock(now_ms=NOW_MS, tick=0))
    return _DRV[0]


def driver():
    return _DRV[0] or new_driver()


def reset_sticky():
    ''' see check_C05: the class-level scapy overload dict keeps a block number between sends '''
    from bp.encoding import CanonicalBlock
    for (_fval, cls) in list(getattr(CanonicalBlock, 'payload_guess', [])):
        over = (getattr(cls, '_overload_fields', None) or {}).get(CanonicalBlock)
        if isinstance(over, dict):
            over.pop('block_num', None)


def feed(data):
    ''' One octet string through the CL callback path of a (shared, so far effect-free) agent.
    :return: dict(effects=[...], surface=how the drop surfaced) '''
    drv = driver()
    seen0 = drv.seen()
    pend0 = drv.reassembly_pending()
    # A corrupted head can turn a byte-string field into an unsigned integer n, and BstrField.m2i then
    # evaluates bytes(n): n zero octets (gigabytes for a 4-octet argument).  Cap the address space while the
    # agent runs so that this surfaces as MemoryError (= dropped) instead of exhausting the machine.
    (soft, hard) = resource.getrlimit(resource.RLIMIT_AS)
    resource.setrlimit(resource.RLIMIT_AS, (MEM_CAP if hard == resource.RLIM_INFINITY else min(MEM_CAP, hard), hard))
    try:
        obs = drv.recv(data)
    finally:
        resource.setrlimit(resource.RLIMIT_AS, (soft, hard))
    eff = []
    if drv.seen() != seen0:
        eff.append('recorded-as-seen')
    if any(obs['actions']):
        eff.append('routed:' + '+'.join(sorted(set(act for acts in obs['actions'] for act in acts))))
    if obs['deliveries']:
        eff.append('delivered')
    if obs['forwarded']:
        eff.append('forwarded')
    if obs['reports']:
        eff.append('reported-on')
    if obs['send_attempts'] and not (obs['forwarded'] or obs['reports']):
        eff.append('send-attempted')
    if drv.reassembly_pending() != pend0:
        eff.append('kept-for-reassembly')
    if obs['decode_error']:
        surf = 'Bundle(data) raises ' + obs['decode_error']
    elif obs['recv_exc']:
        surf = 'recv_bundle raises ' + obs['recv_exc']
    elif obs['escaped']:
        surf = 'idle callback raises ' + obs['escaped'][0]
    else:
        surf = 'recv_bundle returns'
    if eff:
        new_driver()
    return dict(effects=eff, surface=surf, reached_gate=(obs['decode_error'] is None))


def real_view(data):
    ''' Field values and re-encoding by the real codec (public API only). '''
    from bp.encoding import Bundle
    try:
        bundle = Bundle(bytes(data))
        spec = bg.strip_views(bg.spec_of_real(bundle))
        return dict(ok=True, spec=spec, reenc=bytes(bundle))
    except Exception as err:
        return dict(ok=False, exc=err.__class__.__name__)


def eid_blind(spec):
    out = json.loads(json.dumps(spec))
    for key in ('dest', 'src', 'report_to'):
        out[key] = None
    return out


def classify_accept(orig, bad, off):
    ''' Why did the agent accept octets whose CRC an independent receiver finds wrong?
    :return: (signature or None, text) '''
    rv_bad = real_view(bad)
    rv_orig = real_view(orig)
    if not (rv_bad['ok'] and rv_orig['ok']):
        return (None, 'real codec cannot show the decoded fields (%s)' % (rv_bad.get('exc') or rv_orig.get('exc')))
    reenc = rv_bad['reenc']
    if reenc == orig:
        if rv_bad['spec'] == rv_orig['spec']:
            return (SIG_SAME, 'decoded field values identical to the original, re-encoding = original octets')
        if eid_blind(rv_bad['spec']) == eid_blind(rv_orig['spec']):
            diff = [(key, rv_orig['spec'][key], rv_bad['spec'][key]) for key in ('dest', 'src', 'report_to')
                    if rv_orig['spec'][key] != rv_bad['spec'][key]]
            return (SIG_EID, 're-encoding = original octets although decoded EIDs differ: %s' % (diff,))
        return (None, 're-encoding = original octets although non-EID fields differ')
    if reenc == bad:
        return (None, 'canonical corruption (re-encoding = received octets) passes the CRC check')
    try:
        v_orig = block_views(orig)
        v_re = block_views(reenc)
    except Exception as err:
        return (None, 're-encoding %s is not a block sequence (%s)' % (reenc.hex(), err.__class__.__name__))
    hit = [ent['idx'] for ent in v_orig if ent['start'] <= off < ent['end']]
    if not hit:
        return (None, 'corruption outside every block')
    idx = hit[0]
    item0 = v_orig[idx]['item']
    btype = item0[0] if (idx > 0 and isinstance(item0, list) and item0) else None
    re_ok = all(not ent['problems'] for ent in v_re)
    if len(v_re) < len(v_orig):
        # is the re-encoding the original with some blocks (after the corrupted one) missing?
        left = [ent['octets'] for ent in v_orig]
        pos = 0
        kept = []
        for ent in v_re:
            while pos < len(left) and left[pos] != ent['octets']:
                pos += 1
            if pos == len(left):
                kept = None
                break
            kept.append(pos)
            pos += 1
        if kept is not None and idx in kept:
            lost = [num for num in range(len(left)) if num not in kept]
            if btype not in LEFTOVER_TOLERANT_TYPES:
                return (None, 'left-over items not rejected - following block swallowed by a block of type %s (bundle accepted without block(s) #%s)' % (btype, lost))
            return (SIG_SWALLOW, 'block(s) #%s of the original are missing from what the agent decoded (re-encoding %s); the corrupted block #%d re-encodes to its original octets'
                    % (lost, reenc.hex(), idx))
        return (None, 're-encoding %s has fewer blocks than the original' % reenc.hex())
    if len(v_re) == len(v_orig) and re_ok:
        if v_re[idx]['ctype'] == 0 and v_orig[idx]['ctype'] in (1, 2):
            if idx == 0 or btype not in LEFTOVER_TOLERANT_TYPES:
                return (None, 'left-over items not rejected - CRC type flipped to none in %s, CRC item discarded' % ('the primary block' if idx == 0 else 'a block of type %s' % (btype,)))
            return (SIG_TYPE0, 'block #%d decoded with CRC type 0 (was %d): nothing is checked; re-encoding %s' % (idx, v_orig[idx]['ctype'], reenc.hex()))
        if v_re[idx]['ctype'] in (1, 2) and v_re[idx]['octets'] != v_orig[idx]['octets']:
            return (SIG_COLLIDE, 'decoded values differ; CRC of the re-encoded block #%d %s collides with the stored value' % (idx, v_re[idx]['octets'].hex()))
    return (None, 're-encoding %s is neither the original nor the received octets and fits no known class' % reenc.hex())


def apply_xor(raw, off, xs):
    out = bytearray(raw)
    for (idx, val) in enumerate(xs):
        out[off + idx] ^= val
    return bytes(out)


def judge_rx(orig, off, xs):
    ''' Oracle for one corruption.  :return: dict(dropped, surface, effects, indep, sig, what, reached_gate) '''
    bad = apply_xor(orig, off, xs)
    res = feed(bad)
    out = dict(dropped=not res['effects'], surface=res['surface'], effects=res['effects'], reached_gate=res['reached_gate'],
               indep=None, sig=None, what=None)
    if res['effects']:
        out['indep'] = indep_verdict(bad)
        if out['indep'] != 'ok':
            (sig, text) = classify_accept(orig, bad, off)
            out['sig'] = sig or ('C08 / corrupted CRC-protected block not dropped: %s' % text.split(':')[0].strip()[:160])
            out['what'] = ('xor %s at octet %d of %s: independent receiver: %s; agent: %s (%s); %s'
                           % (bytes(xs).hex(), off, orig.hex(), out['indep'], ', '.join(res['effects']), res['surface'], text))
    return out


def _sweep_worker(task):
    orig = bytes.fromhex(task['orig'])
    new_driver()
    return [judge_rx(orig, off, bytes.fromhex(xs)) for (off, xs, _tag) in task['corr']]


# ------------------------------------------------------------------------------------------------
# corruptions

def bits_to_xor(start_bit, pattern_bits):
    ''' bit positions in CRC order (LSB of each octet first) -> (octet offset, xor octets) '''
    first = start_bit // 8
    last = (start_bit + len(pattern_bits) - 1) // 8
    xs = bytearray(last - first + 1)
    for (idx, bit) in enumerate(pattern_bits):
        if bit:
            pos = start_bit + idx
            xs[pos // 8 - first] |= 1 << (pos % 8)
    return (first, bytes(xs))


def corruptions(rng, raw, views, bursts_per_block, bit_step=1, bit_phase=0):
    ''' (offset, xor-octets hex, tag) inside CRC-protected blocks. '''
    out = []
    seen = set()

    def add(off, xs, tag):
        while xs and xs[-1] == 0:
            xs = xs[:-1]
        while xs and xs[0] == 0:
            (off, xs) = (off + 1, xs[1:])
        if not xs or (off, xs) in seen:
            return
        seen.add((off, xs))
        out.append((off, xs.hex(), tag))

    for ent in views:
        if ent['ctype'] not in (1, 2) or ent['problems']:
            continue
        width = 8 * CRC_W[ent['ctype']]
        (lo, hi) = (8 * ent['start'], 8 * ent['end'])
        for pos in range(lo + (bit_phase % bit_step), hi, bit_step):     # bit_step 1 = every single-bit flip
            add(pos // 8, bytes([1 << (pos % 8)]), 'bit')
        # directed re-spellings and CRC-value patterns
        size = CRC_W[ent['ctype']]
        for off in range(ent['start'], ent['end']):
            octet = raw[off]
            if octet in (0, 1):
                add(off, bytes([0xf4]), 'respell')                  # 00/01 -> f4/f5 (false/true)
            if 0x40 <= octet <= 0x57:
                add(off, bytes([0xc0]), 'respell')                  # bstr(n) -> array(n)
            if octet == 0x2f:
                add(off, bytes([0x0c]), 'respell')                  # '/' -> '#'
            if octet == 0x18 and off + 1 < ent['end'] and raw[off + 1] >= 24:
                for val in (raw[off + 1] & 0x0f, raw[off + 1] & 0x17):
                    add(off + 1, bytes([raw[off + 1] ^ val]), 'nonshortest')   # 18 xx -> 18 (value < 24)
        val = raw[ent['end'] - size:ent['end']]
        add(ent['end'] - size, val, 'crc-to-zero')
        add(ent['end'] - size, bytes(b ^ 0xff for b in val), 'crc-to-ones')
        add(ent['end'] - size, bytes([0xff] * size), 'crc-complement')
        # sampled bursts: span 2..w, first and last bit set, anywhere inside the block
        spans = [2, 3, 8, 9, width - 1, width]
        for num in range(bursts_per_block):
            span = spans[num % len(spans)] if num < 2 * len(spans) else rng.randrange(2, width + 1)
            if hi - lo < span:
                continue
            start = rng.randrange(lo, hi - span + 1)
            if num % 7 == 0:
                start = hi - span                                   # ends on the last bit of the CRC value
            elif num % 7 == 1:
                start = max(lo, hi - 8 * size - span // 2)          # straddles the start of the CRC value
            pattern = [1] + [rng.randrange(2) for _ in range(span - 2)] + [1]
            (off, xs) = bits_to_xor(start, pattern)
            add(off, xs, 'burst')
    return out


# ------------------------------------------------------------------------------------------------
# bundles for the receive sweep

EIDS_LOCAL = ['dtn://me/app', 'dtn://me/', 'dtn://me/x/y']
EIDS_AWAY = ['dtn://other/svc', 'ipn:5.7', 'dtn://void/sink']
EIDS_SRC = ['dtn://a/', 'dtn://src/app', 'ipn:9.1', 'dtn://node-b/']
EIDS_RPT = ['dtn:none', 'dtn://a/rpt', 'ipn:9.2']


def item_heads(item, base):
    ''' offsets of the initial octet of every (nested) item of a canonically encoded CBOR item at ``base`` '''
    out = [base]
    if isinstance(item, list):
        pos = base + len(cbor2.dumps(len(item))) if len(item) >= 24 else base + 1
        for sub in item:
            out += item_heads(sub, pos)
            pos += len(cbor2.dumps(sub))
    return out


def structural_corruptions(raw, views):
    ''' EVERY single-bit flip of every structural octet: the array head and the initial octet of every item
    (type code, block number, flags, CRC type, BTSD head, CRC head; nested EID / timestamp heads) of every
    CRC-protected block, plus the two framing octets 0x9f / 0xff of the bundle. '''
    out = []
    offs = [0, len(raw) - 1]
    for ent in views:
        if ent['ctype'] in (1, 2) and not ent['problems']:
            offs += item_heads(ent['item'], ent['start'])
    for off in sorted(set(offs)):
        for bit in range(8):
            out.append((off, bytes([1 << bit]).hex(), 'structural'))
    return out


def structural_specs():
    ''' bundles with 2 and 3 canonical blocks of every kind the codec knows, mixed CRC types '''
    hop = dict(kind='hop', limit=30, count=2)
    prev = dict(kind='prev_node', eid='dtn://prev/')
    age = dict(kind='age', ms=70000)
    raw192 = dict(kind='raw')
    layouts = [
        (2, [(bg.BLOCK_HOP, hop, 1)], 2, 'dtn://other/svc'),            # the classic: hop count then payload, forwarded
        (1, [(bg.BLOCK_PREV_NODE, prev, 2)], 1, 'dtn://me/app'),
        (2, [(192, raw192, 1)], 1, 'dtn://me/app'),
        (1, [(bg.BLOCK_AGE, age, 2)], 2, 'dtn://other/svc'),
        (1, [(bg.BLOCK_HOP, hop, 1), (bg.BLOCK_AGE, age, 2)], 1, 'dtn://me/app'),
        (2, [(bg.BLOCK_PREV_NODE, prev, 2), (192, raw192, 1)], 2, 'dtn://other/svc'),
        (2, [(192, raw192, 2), (bg.BLOCK_HOP, hop, 2)], 0, 'dtn://me/app'),
        (0, [(bg.BLOCK_HOP, hop, 1), (bg.BLOCK_PREV_NODE, prev, 0)], 2, 'ipn:5.7'),
        (2, [(9, raw192, 1), (bg.BLOCK_AGE, age, 1)], 1, 'dtn://other/svc'),
    ]
    specs = []
    for (lidx, (pct, exts, yct, dest)) in enumerate(layouts):
        blocks = []
        for (bidx, (btype, view, ct)) in enumerate(exts):
            data = bg.view_data(view) if view['kind'] != 'raw' else bytes([0x41 + bidx, 0x42, 0x43])
            blocks.append(dict(type=btype, num=2 + bidx, flags=0, crc_type=ct, data=data.hex(), crc=None))
        blocks.append(dict(type=1, num=1, flags=0, crc_type=yct, data=b'payload'.hex(), crc=None))
        flags = bg.FLAG_REQ_RECEPTION | bg.FLAG_REQ_FORWARDING | bg.FLAG_REQ_DELIVERY if lidx % 2 == 0 else 0
        spec = dict(version=7, flags=flags, crc_type=pct, dest=dest, src='dtn://src/app', report_to='dtn://a/rpt',
                    time=650000000000 + lidx, seq=lidx, lifetime=3600000, frag=None, crc=None, blocks=blocks)
        specs.append(bg.fill_crc(spec))
    return specs


def sweep_specs(rng, count):
    specs = []
    combos = [(p, e, y) for p in (1, 2, 0) for e in (1, 2, 0) for y in (1, 2, 0) if (p, e, y) != (0, 0, 0)]
    for idx in range(count):
        combo = combos[idx % len(combos)]
        n_ext = [1, 0, 2][idx % 3]
        flags = 0
        for bit in (bg.FLAG_REQ_RECEPTION, bg.FLAG_REQ_DELIVERY, bg.FLAG_REQ_FORWARDING, bg.FLAG_REQ_DELETION,
                    bg.FLAG_REQ_STATUS_TIME, bg.FLAG_NO_FRAGMENT):
            if rng.random() < 0.4:
                flags |= bit
        if idx % 9 == 4:
            flags |= bg.FLAG_IS_FRAGMENT
        admin = (idx % 11 == 7)
        spec = bg.gen_bundle(rng, flags=flags, crc_types=[combo[0]] + [combo[1]] * n_ext + [combo[2]], admin=admin,
                             n_ext=n_ext, payload_sizes=(0, 1, 3, 5, 23, 24, 30), unknown_flag_bits=False)
        spec['dest'] = rng.choice(EIDS_LOCAL if idx % 3 != 1 else EIDS_AWAY)
        spec['src'] = rng.choice(EIDS_SRC)
        spec['report_to'] = rng.choice(EIDS_RPT)
        spec['time'] = 700000000000 + idx
        spec['seq'] = rng.choice([0, 1, 23, 24, 300])
        spec['lifetime'] = rng.choice([3600000, 1000, 24, 65536])
        for blk in spec['blocks'][:-1]:
            if len(blk['data']) > 80:
                blk['data'] = blk['data'][:80]
                blk['view'] = dict(kind='raw')
        bg.fill_crc(spec)
        specs.append(spec)
    return specs


# ------------------------------------------------------------------------------------------------
# transmit side

def tx_scenarios(rng, quick):
    ''' JSON-able send requests covering every CRC-type assignment on every path. '''
    out = []
    combos = [(p, e, y) for p in (0, 1, 2) for e in (0, 1, 2) for y in (0, 1, 2)]
    reps = 1 if quick else 6
    for rep in range(reps):
        for (cidx, combo) in enumerate(combos):
            n_ext = (cidx + rep) % 3
            for (pidx, path) in enumerate(('local', 'local-typed', 'fwd', 'fwd-report', 'deliver-report', 'delete-report', 'local-frag', 'fwd-frag')):
                if quick and (pidx + cidx) % 2:
                    continue            # quick: every path with every second CRC-type assignment
                frag_path = path.endswith('-frag')
                flags = 0
                if path.endswith('-report'):
                    flags |= bg.FLAG_REQ_RECEPTION | bg.FLAG_REQ_DELIVERY | bg.FLAG_REQ_FORWARDING | bg.FLAG_REQ_DELETION
                    if (cidx + rep) % 2:
                        flags |= bg.FLAG_REQ_STATUS_TIME
                sizes = (300, 420) if frag_path else (0, 1, 5, 23, 24, 60, 255, 256)
                spec = bg.gen_bundle(rng, flags=flags, crc_types=[combo[0]] + [combo[1]] * n_ext + [combo[2]], admin=False,
                                     n_ext=n_ext, payload_sizes=sizes, unknown_flag_bits=False)
                spec['src'] = rng.choice(EIDS_SRC)
                spec['report_to'] = 'dtn://a/rpt' if path.endswith('-report') else rng.choice(EIDS_RPT)
                spec['time'] = 600000000000 + len(out)
                spec['seq'] = rng.choice([0, 1, 24, 256])
                spec['lifetime'] = rng.choice([3600000, 86400000, 23])
                if path == 'deliver-report':
                    spec['dest'] = 'dtn://me/app'
                elif path == 'delete-report':
                    spec['dest'] = 'dtn://nowhere/x'
                elif frag_path:
                    spec['dest'] = 'dtn://frag/sink'
                else:
                    spec['dest'] = rng.choice(['dtn://other/svc', 'ipn:5.7'])
                if path in ('fwd', 'fwd-report', 'fwd-frag') and (cidx + rep) % 2 == 0:
                    # hop count + bundle age + previous node blocks: rewritten by the forwarding code
                    nums = {blk['num'] for blk in spec['blocks']}
                    extra = []
                    for (btype, view) in ((bg.BLOCK_HOP, dict(kind='hop', limit=30, count=rng.randrange(0, 25))),
                                          (bg.BLOCK_AGE, dict(kind='age', ms=rng.choice([0, 23, 24, 70000]))),
                                          (bg.BLOCK_PREV_NODE, dict(kind='prev_node', eid='dtn://prev/'))):
                        num = max(nums | {1}) + 1
                        nums.add(num)
                        extra.append(dict(type=btype, num=num, flags=0, crc_type=combo[1], data=bg.view_data(view).hex(),
                                          crc=None, view=view))
                    spec['blocks'] = extra + spec['blocks']
                bg.fill_crc(spec)
                out.append(dict(path=path, spec=bg.strip_views(spec) if path != 'local-typed' else spec, combo=list(combo)))
    return out


def run_tx_scenario(scn):
    ''' :return: dict(tx=[octets handed to the CL], exc) '''
    from bp.util import BundleContainer
    drv = new_driver()
    reset_sticky()
    spec = scn['spec']
    res = dict(exc=None)
    if scn['path'].startswith('local'):
        unset = json.loads(json.dumps(spec))
        unset['crc'] = None
        for blk in unset['blocks']:
            blk['crc'] = None
        try:
            bundle = bg.build_real(unset, via_payload=(scn['path'] == 'local-typed'), update_crc=False)
            drv.agent.send_bundle(BundleContainer(bundle))
        except Exception as err:
            res['exc'] = err.__class__.__name__
        res['escaped'] = drv.drain()
    else:
        obs = drv.recv(bg.encode(spec))
        res['exc'] = obs['decode_error'] or obs['recv_exc']
        res['escaped'] = obs['escaped']
    res['tx'] = [bytes.fromhex(ent['raw_hex']) for ent in drv.transmitted]
    return res


def judge_tx(raw):
    ''' Oracle for one transmitted octet string. :return: (problems, views) '''
    try:
        views = block_views(raw)
    except Exception as err:
        return (['not an RFC 9171 block sequence: %s %s' % (err.__class__.__name__, err)], [])
    probs = []
    if not views:
        probs.append('no blocks')
    for ent in views:
        for text in ent['problems']:
            probs.append('block #%d (CRC type %s): %s' % (ent['idx'], ent['ctype'], text))
    return (probs, views)


# ------------------------------------------------------------------------------------------------
# witness hunts (search tools: bpdrive's fast CRCs; every hit is confirmed by crc_poly and the real agent)

def block16(num_octets, payload, head):
    return bytes([0x86, 0x01]) + num_octets + bytes([0x00, 0x01]) + head + payload + b'\x42\x00\x00'


def hunt_tstr16(limit):
    ''' CRC-16 payload block whose BTSD head flipped bstr->tstr (one bit) re-encodes, with a null BTSD, to a
    block of equal CRC.  Candidates: 3-octet printable payloads in lexicographic order. '''
    target = bpdrive.crc16_x25(bytes([0x86, 1, 1, 0, 1, 0xf6, 0x42, 0, 0]))
    tried = 0
    hits = []
    for a in range(0x20, 0x7f):
        for b in range(0x20, 0x7f):
            for c in range(0x20, 0x7f):
                tried += 1
                pay = bytes([a, b, c])
                if bpdrive.crc16_x25(block16(b'\x01', pay, b'\x43')) == target:
                    hits.append(pay)
                if tried >= limit:
                    return (tried, hits)
    return (tried, hits)


def _step16(state, octet):
    state ^= octet
    for _ in range(8):
        state = (state >> 1) ^ 0x8408 if state & 1 else state >> 1
    return state


_T16 = [_step16(val, 0) for val in range(256)]


def _fast16(state, octets):
    for octet in octets:
        state = _T16[(state ^ octet) & 0xff] ^ (state >> 8)
    return state


def hunt_nonshortest16_k1(limit):
    ''' The gap as named in DESIGN.md: a one-octet argument 0x18 0x2x / 0x18 0x3x (40..55) loses bit 0x20 and
    becomes the non-shortest 0x18 0x0x / 0x18 0x1x (8..23); cbor2 reads it, the block re-encodes ONE OCTET
    SHORTER.  Everything after the field is common to both encodings, so the CRCs agree iff the CRC registers
    agree right after the field; the free field must lie in front of it: the block type code 0x19 hh ll.
    (Expected: NO hit at all - both generators are divisible by x+1 and the two spellings differ by an odd
    number of one-bits.)  :return: (tried, [(type code, block number)]) '''
    tried = 0
    hits = []
    for code in range(256, 65536):
        state = _fast16(0xFFFF, (0x86, 0x19, code >> 8, code & 0xff))
        via18 = _fast16(state, (0x18,))
        for num in range(40, 56):
            tried += 1
            if _fast16(via18, (num,)) == _fast16(state, (num - 32,)):
                hits.append((code, num))
            if tried >= limit:
                return (tried, hits)
    return (tried, hits)


def hunt_nonshortest16(limit):
    ''' Same gap with a two-octet argument: block number 0x19 0x01 xx (256 + xx) loses bit 0x01 of its middle
    octet and becomes the non-shortest 0x19 0x00 xx = xx, re-encoded as 0x18 xx (or xx below 24): one or two
    octets shorter.  Free field in front: the type code 0x19 hh ll.  About one (type code, xx) pair in 32 768
    makes the CRC-16 registers agree.  :return: (tried, [(type code, xx)]) '''
    tried = 0
    hits = []
    for code in range(256, 65536):
        state = _fast16(0xFFFF, (0x86, 0x19, code >> 8, code & 0xff))
        via = _fast16(state, (0x19, 0x01))
        via18 = _fast16(state, (0x18,))
        for low in range(256):
            tried += 1
            short = _fast16(via18, (low,)) if low >= 24 else _fast16(state, (low,))
            if _fast16(via, (low,)) == short:
                hits.append((code, low))
            if tried >= limit:
                return (tried, hits)
    return (tried, hits)


def solve_tstr32():
    ''' CRC-32C: the CRC is affine in the payload bits, so a colliding 6-octet printable payload is found by
    Gaussian elimination over GF(2) (bits 0..5 of each octet free, bit 6 set, bit 7 clear: 0x40..0x7f). '''
    def blk(pay):
        return bytes([0x86, 1, 1, 0, 2, 0x40 + len(pay)]) + pay + b'\x44\x00\x00\x00\x00'
    target = bpdrive.crc32c(bytes([0x86, 1, 1, 0, 2, 0xf6, 0x44, 0, 0, 0, 0]))
    base = bytearray([0x40] * 6)
    c0 = bpdrive.crc32c(blk(bytes(base)))
    cols = []
    for octet in range(6):
        for bit in range(6):
            pay = bytearray(base)
            pay[octet] ^= 1 << bit
            cols.append((bpdrive.crc32c(blk(bytes(pay))) ^ c0, 1 << (len(cols))))
    want = target ^ c0
    # eliminate: basis vectors (value, combination mask)
    basis = {}
    for (val, mask) in cols:
        cur = (val, mask)
        while cur[0]:
            top = cur[0].bit_length() - 1
            if top in basis:
                cur = (cur[0] ^ basis[top][0], cur[1] ^ basis[top][1])
            else:
                basis[top] = cur
                break
    comb = 0
    while want:
        top = want.bit_length() - 1
        if top not in basis:
            return None
        want ^= basis[top][0]
        comb ^= basis[top][1]
    pay = bytearray(base)
    for idx in range(36):
        if (comb >> idx) & 1:
            pay[idx // 6] ^= 1 << (idx % 6)
    return bytes(pay)


def witness_bundle(ctype, blocks_zero_crc):
    ''' valid bundle (every block of CRC type ``ctype``) around canonical blocks given with zeroed CRC values.
    :return: (octets, [offset of each block]) '''
    size = CRC_W[ctype]
    pri = [7, 0, ctype, [1, '//me/app'], [1, '//a/'], [1, 0], [1000, 1], 3600000]
    pre = cbor2.dumps(pri + [b'\x00' * size])
    out = b'\x9f' + pre[:-size] + crc_value_octets(pre, ctype)
    offs = []
    for blk in blocks_zero_crc:
        offs.append(len(out))
        out += blk[:-size] + crc_value_octets(blk, ctype)
    return (out + b'\xff', offs)


# ------------------------------------------------------------------------------------------------
# reporting

class Reporter(object):

    def __init__(self, chk):
        self.chk = chk
        self.pending = {}

    def fail(self, sig, what, replay_obj):
        if sig in PENDING_FINDINGS and self.chk.known_match(sig) is None:
            if sig not in self.pending:
                path = os.path.join(VERIF, 'build', 'replay', 'C08_pending_%s.json' % hashlib.sha1(sig.encode()).hexdigest()[:10])
                with open(path, 'w') as out:
                    json.dump(dict(property=PROP, signature=sig, what=what, replay=replay_obj), out, indent=1)
                self.pending[sig] = (what, path)
            return
        self.chk.fail(sig, what, replay_obj)

    def flush(self):
        for (sig, (what, path)) in sorted(self.pending.items()):
            print('PENDING-FINDING: property=%s %s -- %s (replay=%s)' % (PROP, sig, what[:300], path))


def rx_replay_obj(orig, off, xs):
    return dict(kind='rx', orig_hex=orig.hex(), off=off, xor_hex=bytes(xs).hex(), node=NODE, rx_routes=RX_ROUTES, tx_routes=TX_ROUTES)


def replay(chk, path):
    with open(path) as infile:
        ent = json.load(infile)
    rep = ent.get('replay', ent)
    if ent.get('no_failing_input_found') or 'broken' in rep:
        print('replay: this file records broken obligations without a failing input: %s' % json.dumps(rep)[:2000])
        okay = chk.coq_props()
        print('replay: proof obligations now %s' % ('check' if okay else 'FAIL'))
        sys.exit(0 if okay else 1)
    bad = False
    if rep['kind'] == 'rx':
        orig = bytes.fromhex(rep['orig_hex'])
        xs = bytes.fromhex(rep['xor_hex'])
        new_driver()
        ref = feed(orig)
        print('replay: original  %s -> %s' % (orig.hex(), ref['effects'] or 'no effect'))
        new_driver()
        res = judge_rx(orig, rep['off'], xs)
        print('replay: corrupted %s (xor %s at octet %d)' % (apply_xor(orig, rep['off'], xs).hex(), xs.hex(), rep['off']))
        print('replay: agent: %s; effects %s; independent receiver: %s' % (res['surface'], res['effects'] or 'none', res['indep'] or indep_verdict(apply_xor(orig, rep['off'], xs))))
        if res['sig']:
            print('replay: FAIL %s -- %s' % (res['sig'], res['what']))
            bad = chk.known_match(res['sig']) is None
            if not bad:
                print('replay: (this is a KNOWN finding)')
    elif rep['kind'] == 'tx':
        res = run_tx_scenario(rep['scenario'])
        print('replay: %s send of %s -> exc %s, %d transmission(s)' % (rep['scenario']['path'], json.dumps(bg.strip_views(rep['scenario']['spec']))[:800], res['exc'], len(res['tx'])))
        for raw in res['tx']:
            (probs, _views) = judge_tx(raw)
            print('replay: transmitted %s' % raw.hex())
            for text in probs:
                print('replay: FAIL %s' % text)
                bad = True
    else:
        print('replay: unknown replay kind %r' % rep['kind'])
        sys.exit(2)
    if bad:
        print('VIOLATION property=%s replay=%s' % (PROP, path))
        sys.exit(1)
    print('replay: the property holds on this input')
    sys.exit(0)


def model_eval(chk, evals, shards=16):
    ''' One sharded ``coq_eval`` over heterogeneous closed terms, balanced by weight.
    :return: {key: parsed value} or None (error text in chk.model_error) '''
    piles = [[] for _ in range(shards)]
    loads = [0] * shards
    for item in sorted(evals, key=lambda it: -it[0]):
        pick = min(range(shards), key=lambda idx: (loads[idx], idx))
        piles[pick].append(item)
        loads[pick] += item[0]
    size = max(len(pile) for pile in piles)
    flat = []
    for pile in piles:
        flat.extend(pile + [(0, None, '0')] * (size - len(pile)))
    try:
        vals = chk.coq_eval('all', ['Lib.Crc', 'Model.Bundle', 'Model.BundleCrc', 'Gen.CrcTable'], [term for (_w, _k, term) in flat],
                            '(fun x => x)', chunk=size)
    except CoqError as err:
        chk.model_error = str(err)[:400]
        return None
    return dict((key, val) for ((_w, key, _t), val) in zip(flat, vals) if key is not None)


def tick(chk, what):
    if os.environ.get('C08_TIMING'):
        sys.stderr.write('[%7.1fs] %s\n' % (time.time() - chk.start, what))


# ------------------------------------------------------------------------------------------------

def main():
    chk = Check(PROP, level='proof', description=__doc__)
    if chk.args.replay:
        replay(chk, chk.args.replay)
    rep = Reporter(chk)
    quick = chk.quick()
    rng = chk.rng

    props_ok = chk.coq_props()
    tick(chk, 'coq_props %s' % props_ok)
    (tr_ok, tr_err) = chk.translate_ok('crctable')

    # ---------------------------------------------------------------- known-finding witnesses (corpus)
    with open(CORPUS) as infile:
        corpus = json.load(infile)['witnesses']
    new_driver()
    for wit in corpus:
        orig = bytes.fromhex(wit['orig_hex'])
        xs = bytes.fromhex(wit['xor_hex'])
        new_driver()
        ref = feed(orig)
        new_driver()
        res = judge_rx(orig, wit['off'], xs)
        chk.case(('corpus', wit['orig_hex'], wit['off'], wit['xor_hex']), nontrivial=True,
                 sample=(dict(kind='corpus witness', name=wit['name'], orig=wit['orig_hex'], off=wit['off'], xor=wit['xor_hex'],
                              verdict=res['surface'], effects=res['effects'], signature=res['sig']) if wit['name'] in ('collide-tstr16', 'swallow-next-block') else None))
        chk.count('stream', 'corpus')
        if not ref['effects']:
            chk.obligation('corpus:%s' % wit['name'], False, 'the uncorrupted witness bundle is not accepted by the agent any more')
        if res['sig']:
            rep.fail(res['sig'], res['what'], rx_replay_obj(orig, wit['off'], xs))
    tick(chk, 'corpus done')

    # ---------------------------------------------------------------- translator cross-check
    from bp.encoding import AbstractBlock
    samples = [b'', b'123456789', bytes(range(40)), bytes([0x86, 1, 1, 0, 1, 0x43, 1, 2, 3, 0x42, 0, 0])]
    samples += [bytes(rng.randrange(256) for _ in range(rng.choice([1, 7, 64, 200]))) for _ in range(4)]
    live = []
    terms = []
    for ctype in (0, 1, 2, 3):
        for data in samples:
            defn = AbstractBlock.CRC_DEFN.get(ctype)
            live.append(None if defn is None else bytes(defn['encode'](defn['func'](data))))
            terms.append('(%d, %s)' % (ctype, coq_bytes(data)))
    enum_live = sorted(int(val) for val in AbstractBlock.CrcType)
    table_bad = []
    evals = []          # (weight, key, closed Coq term): ONE sharded model evaluation for the whole check
    if tr_ok:
        for (idx, term) in enumerate(terms):
            evals.append((1, ('gen', idx), '((fun c : N * list N => match CrcTable.gen_crc_field (fst c) (snd c) with Some v => [v] | None => [] end) %s)' % term))
        evals.append((1, ('enum', 0), 'CrcTable.crc_type_values'))
    else:
        table_bad.append('translator failed closed: %s' % tr_err)
    pos = 0
    for ctype in (0, 1, 2, 3):
        for data in samples:
            want = crc_poly(data, ctype).to_bytes(CRC_W[ctype], 'big') if ctype in CRC_W else None
            if live[pos] != want:
                table_bad.append('live CRC_DEFN[%d] on %s gives %s, independent CRC %s' % (ctype, data.hex()[:40], live[pos] and live[pos].hex(), want and want.hex()))
            chk.case(('crc-table', ctype, data.hex()), nontrivial=ctype in CRC_W)
            chk.count('stream', 'crc-table')
            pos += 1
    tick(chk, 'translator cross-check done')

    # ---------------------------------------------------------------- transmit side
    scenarios = tx_scenarios(rng, quick)
    tx_raws = []
    tx_fail = 0
    tx_exc = {}
    for scn in scenarios:
        res = run_tx_scenario(scn)
        if res['exc']:
            tx_exc[res['exc']] = tx_exc.get(res['exc'], 0) + 1
        for raw in res['tx']:
            (probs, views) = judge_tx(raw)
            protected = sum(1 for ent in views if ent['ctype'] in (1, 2))
            chk.case(('tx', raw.hex()), nontrivial=protected > 0,
                     sample=dict(kind='transmitted', path=scn['path'], crc_types=[ent['ctype'] for ent in views], octets=raw.hex()[:240]))
            chk.count('stream', 'tx:' + scn['path'])
            for ent in views:
                chk.count('tx_block_crc_type', ent['ctype'])
            if probs:
                tx_fail += 1
                rep.fail('C08 / transmitted block CRC wrong or misplaced (%s)' % scn['path'],
                         '%s: %s' % ('; '.join(probs[:3]), raw.hex()[:300]), dict(kind='tx', scenario=scn))
            tx_raws.append((scn, raw, views, probs))
    tick(chk, 'tx impl side done: %d scenarios, %d transmissions, exceptions %s' % (len(scenarios), len(tx_raws), tx_exc))

    # ---------------------------------------------------------------- receive side: implementation
    n_bundles = 36 if quick else 240
    bursts = 12 if quick else 60
    full_bits = 10 if quick else n_bundles      # quick: exhaustive single-bit flips for the first 10 bundles, every 3rd bit for the rest
    specs = sweep_specs(rng, n_bundles)
    tasks = []
    skipped = 0
    new_driver()
    for spec in specs:
        raw = bg.encode(spec)
        new_driver()
        ref = feed(raw)
        if not ref['effects'] or indep_verdict(raw) != 'ok':
            skipped += 1          # the uncorrupted bundle must be one the agent processes
            continue
        views = block_views(raw)
        exhaustive = len(tasks) < full_bits
        corr = corruptions(rng, raw, views, bursts, bit_step=(1 if exhaustive else 3), bit_phase=len(tasks))
        tasks.append(dict(orig=raw.hex(), corr=corr, crc_types=[ent['ctype'] for ent in views], ref=ref['effects'], exhaustive=exhaustive))
    # exhaustive structural sweep (both tiers): bundles with 2 and 3 canonical blocks of mixed kinds and CRC types
    n_struct = 0
    for spec in structural_specs():
        raw = bg.encode(spec)
        new_driver()
        ref = feed(raw)
        if not ref['effects'] or indep_verdict(raw) != 'ok':
            chk.obligation('coverage:structural bundle %d accepted uncorrupted' % n_struct, False, raw.hex())
            continue
        views = block_views(raw)
        tasks.append(dict(orig=raw.hex(), corr=structural_corruptions(raw, views), crc_types=[ent['ctype'] for ent in views],
                          ref=ref['effects'], exhaustive=True))
        n_struct += 1
    new_driver()
    tick(chk, 'rx tasks built: %d bundles, %d corruptions (skipped %d)' % (len(tasks), sum(len(t['corr']) for t in tasks), skipped))
    with multiprocessing.get_context('fork').Pool(16) as pool:
        results = pool.map(_sweep_worker, tasks, chunksize=1)
    tick(chk, 'rx sweep done')

    rx_total = 0
    accepted = {}
    surfaces = {}
    for (task, res_list) in zip(tasks, results):
        orig = bytes.fromhex(task['orig'])
        for ((off, xs_hex, tag), res) in zip(task['corr'], res_list):
            rx_total += 1
            chk.case(('rx', task['orig'], off, xs_hex), nontrivial=res['reached_gate'],
                     sample=(dict(kind='corruption', orig=task['orig'][:200], off=off, xor=xs_hex, tag=tag, agent=res['surface'], effects=res['effects'])
                             if tag == 'bit' and res['reached_gate'] else None))
            chk.count('stream', 'rx:' + tag)
            key = res['surface'] if res['dropped'] else 'NOT DROPPED'
            surfaces[key] = surfaces.get(key, 0) + 1
            if res['sig']:
                accepted[res['sig']] = accepted.get(res['sig'], 0) + 1
                rep.fail(res['sig'], res['what'], rx_replay_obj(orig, off, bytes.fromhex(xs_hex)))
    chk.hist['rx_outcome'] = dict(sorted(surfaces.items()))
    chk.hist['rx_not_dropped_by_class'] = accepted

    # ---------------------------------------------------------------- model side (one sharded evaluation)
    model_bad = []
    tx_model_bad = []
    model_tasks = [tidx for (tidx, task) in enumerate(tasks) if task['exhaustive']]
    for tidx in model_tasks:
        task = tasks[tidx]
        evals.append((len(task['corr']), ('rx', tidx), '(BundleCrc.run_rx (%s, [%s]))' % (
            coq_bytes(bytes.fromhex(task['orig'])),
            '; '.join('(%d%%nat, %s)' % (off, coq_bytes(bytes.fromhex(xs))) for (off, xs, _t) in task['corr']))))
    spec_sample = [idx for (idx, (_s, raw, _v, _p)) in enumerate(tx_raws) if len(raw) <= 110][:12 if quick else 120]
    tx_model_idx = [idx for (idx, (_s, _r, _v, probs)) in enumerate(tx_raws) if probs or not quick or idx % 2 == 0]
    spec_sample = [idx for idx in spec_sample if idx in tx_model_idx]
    for idx in tx_model_idx:
        raw = tx_raws[idx][1]
        evals.append((max(1, len(raw) // 4), ('tx', idx), '(BundleCrc.run_tx %s)' % coq_bytes(raw)))
    for idx in spec_sample:
        evals.append((len(tx_raws[idx][1]) * 3, ('txspec', idx), '(BundleCrc.run_tx_spec %s)' % coq_bytes(tx_raws[idx][1])))
    model = model_eval(chk, evals, shards=(8 if quick else 16))
    tick(chk, 'model side done')
    if model is None:
        model_bad.append('model evaluation failed: %s' % chk.model_error)
        rx_model = None
        tx_model = None
    else:
        rx_model = [model[('rx', tidx)] for tidx in model_tasks]
        tx_model = [model[('tx', idx)] for idx in tx_model_idx]
        for idx in spec_sample:
            if model[('txspec', idx)] != model[('tx', idx)]:
                tx_model_bad.append('polynomial-specification CRC column differs from the executable one on %s' % tx_raws[idx][1].hex()[:80])
        if tr_ok:
            for (idx, (term, want)) in enumerate(zip(terms, live)):
                have = model[('gen', idx)]
                have_b = bytes(have[0]) if have else None
                if have_b != want:
                    table_bad.append('gen_crc_field %s = %s, live CRC_DEFN gives %s' % (term[:60], have_b and have_b.hex(), want and want.hex()))
            if sorted(model[('enum', 0)]) != enum_live:
                table_bad.append('CrcType values %s vs translated %s' % (enum_live, model[('enum', 0)]))
    pos_stats = dict(lax_drop=0, lax_accept=0, lax_none=0, strict_drop=0, strict_accept=0, canonical=0)
    if rx_model is not None:
        for (task, res_list, rows) in zip([tasks[tidx] for tidx in model_tasks], [results[tidx] for tidx in model_tasks], rx_model):
            orig = bytes.fromhex(task['orig'])
            if len(rows) != len(res_list):
                model_bad.append('result count differs for %s' % task['orig'][:60])
                continue
            for ((off, xs_hex, tag), res, (lax, strict, canon, arity)) in zip(task['corr'], res_list, rows):
                where = 'xor %s at %d of %s' % (xs_hex, off, task['orig'])
                pos_stats['lax_drop' if lax == 1 else 'lax_accept' if lax == 2 else 'lax_none'] += 1
                pos_stats['canonical'] += canon
                if strict == 1:
                    pos_stats['strict_drop'] += 1
                if strict == 2:
                    pos_stats['strict_accept'] += 1
                bad_oct = apply_xor(orig, off, bytes.fromhex(xs_hex))
                for (name, verdict) in (('lax', lax), ('strict', strict)):
                    if verdict == 1 and not res['dropped']:
                        if name == 'strict' and res['sig'] in KNOWN_SIGS:
                            continue        # the strict codec model has none of the lax readings: explained by the finding
                        if name == 'lax' and res['sig'] == SIG_EID and any(octet in (9, 10, 13) for octet in bad_oct[off:off + len(xs_hex) // 2]):
                            continue        # urlsplit also deletes TAB / LF / CR; Bundle.impl_norm_ssp does not model that (same finding class)
                        model_bad.append('%s model drops, agent does not (%s): %s' % (name, res['effects'], where))
                    if verdict == 2 and res['dropped']:
                        lib_rejects = False
                        if not res['reached_gate']:
                            try:
                                cbor2.loads(bad_oct)
                            except Exception:
                                lib_rejects = True      # e.g. invalid UTF-8: the CBOR library itself refuses the octets
                        if not lib_rejects:
                            model_bad.append('%s model accepts, agent drops (%s): %s' % (name, res['surface'], where))
                if arity == 1:
                    pos_stats['arity_bad'] = pos_stats.get('arity_bad', 0) + 1
                    if not res['dropped'] and res['sig'] not in (SIG_SWALLOW, SIG_TYPE0):
                        model_bad.append('a canonical block array with left-over / missing items (model: undecodable, C08_leftover_items_rejected) '
                                         'is not dropped by the agent (%s): %s' % (res['effects'], where))
                if strict == 2 and canon == 1 and indep_verdict(bad_oct) != 'ok':
                    model_bad.append('strict model accepts a canonical corruption with a wrong CRC: %s' % where)
    if tx_model is not None:
        decoded = 0
        for ((scn, raw, views, probs), val) in zip([tx_raws[idx] for idx in tx_model_idx], tx_model):
            if val is None:
                continue
            (flags3, rows) = val[1]
            decoded += 1
            want_rows = []
            for ent in views:
                stored = list(ent['stored'] or b'')
                comp = list(ent['computed'] or b'')
                want_rows.append([[ent['ctype']], [ent.get('n_items')], stored, comp])
            got_rows = [[list(cell) for cell in row] for row in rows]
            if not probs:
                if got_rows != want_rows:
                    tx_model_bad.append('%s: rows differ: model %s independent %s' % (raw.hex()[:80], got_rows, want_rows))
                if not (flags3[0] and flags3[1] and flags3[2]):
                    tx_model_bad.append('%s: model flags [canonical, crc_ok_bundle, fixpoint of with_crc_bundle] = %s' % (raw.hex()[:80], flags3))
            else:
                # the oracle failed: the model must fail too (it recomputes the same CRCs)
                if flags3[1] and got_rows == want_rows:
                    tx_model_bad.append('%s: oracle fails but the model accepts' % raw.hex()[:80])
        chk.hist['tx_model_decoded'] = {'decoded': decoded, 'of': len(tx_model_idx)}
        if tx_model_idx and decoded * 2 < len(tx_model_idx):
            tx_model_bad.append('the model decodes only %d of %d transmitted bundles' % (decoded, len(tx_model_idx)))
    chk.hist['rx_model_positions'] = pos_stats

    # ---------------------------------------------------------------- hunts
    hunt = {}
    (tried, hits) = hunt_tstr16(120000 if quick else 95 ** 3)
    hunt['tstr16'] = dict(tried=tried, hits=len(hits), first=[h.hex() for h in hits[:3]])
    (tried2, hits2) = hunt_nonshortest16(1400000 if quick else 65280 * 256)
    hunt['nonshortest16 (19 01 xx -> 19 00 xx)'] = dict(tried=tried2, hits=len(hits2), first=[list(h) for h in hits2[:3]])
    (tried3, hits3) = hunt_nonshortest16_k1(100000 if quick else 65280 * 16)
    hunt['nonshortest16 (18 2x -> 18 0x)'] = dict(tried=tried3, hits=len(hits3), exhaustive=(tried3 == 65280 * 16),
                                                  note='no hit is possible: x+1 divides both generators and the two spellings differ by an odd number of one-bits')
    if hits3:
        chk.obligation('hunt:parity argument', False, 'a 0x18 0x2x -> 0x18 0x0x collision exists: %s' % (hits3[:2],))
    pay32 = solve_tstr32()
    hunt['tstr32'] = dict(solved=pay32 is not None, payload=pay32.hex() if pay32 else None)
    confirmed = []
    cands = []
    pay_blk16 = block16(b'\x01', b'pay', b'\x43')
    for pay in hits[:2 if quick else 8]:
        (raw, offs) = witness_bundle(1, [block16(b'\x01', pay, b'\x43')])
        cands.append(('tstr16', raw, offs[0] + 5, b'\x20'))
    for (code, low) in [hit for hit in hits2 if hit[1] >= 2][:2 if quick else 8]:   # 0 / 1: invalid / duplicate block number
        (raw, offs) = witness_bundle(1, [bytes([0x86, 0x19, code >> 8, code & 0xff, 0x19, 0x01, low, 0x00, 0x01, 0x43]) + b'ext' + b'\x42\x00\x00', pay_blk16])
        cands.append(('nonshortest16', raw, offs[0] + 5, b'\x01'))
    if pay32:
        (raw, offs) = witness_bundle(2, [bytes([0x86, 1, 1, 0, 2, 0x46]) + pay32 + b'\x44\x00\x00\x00\x00'])
        cands.append(('tstr32', raw, offs[0] + 5, b'\x20'))
    for (name, raw, off, xs) in cands:
        new_driver()
        ref = feed(raw)
        new_driver()
        res = judge_rx(raw, off, xs)
        chk.case(('hunt', raw.hex(), off), nontrivial=True)
        chk.count('stream', 'hunt:' + name)
        confirmed.append(dict(kind=name, orig=raw.hex(), off=off, xor=xs.hex(), original_effects=ref['effects'], effects=res['effects'], sig=res['sig']))
        if res['sig']:
            rep.fail(res['sig'], res['what'], rx_replay_obj(raw, off, xs))
    hunt['confirmed_through_agent'] = confirmed
    chk.coverage['witness_hunt'] = hunt
    tick(chk, 'hunts done')

    # ---------------------------------------------------------------- obligations
    chk.obligation('translator:crctable', not table_bad, '; '.join(table_bad[:3]))
    chk.obligation('correspondence:tx-crc (independent CRC = model = transmitted)', not tx_model_bad and not model_bad[:0] and tx_model is not None,
                   '; '.join(tx_model_bad[:3]) or ('' if tx_model is not None else 'no model result'))
    chk.obligation('correspondence:rx-verdict (agent vs lax/strict model)', not model_bad, '; '.join(model_bad[:3]))
    enough = len(tx_raws) >= 50 and rx_total >= 1000 and all(any(ent['ctype'] == ct for (_s, _r, views, _p) in tx_raws for ent in views) for ct in (0, 1, 2))
    chk.obligation('coverage:tx paths and rx sweep ran', enough, '%d transmissions, %d corruptions' % (len(tx_raws), rx_total))
    chk.coverage['rx_bundles'] = len(tasks)
    chk.coverage['rx_structural_bundles'] = n_struct
    chk.coverage['rx_bundles_exhaustive_single_bit'] = sum(1 for task in tasks if task['exhaustive'])
    chk.coverage['rx_bundles_compared_with_model'] = len(model_tasks)
    chk.coverage['rx_corruptions'] = rx_total
    chk.coverage['tx_transmissions'] = len(tx_raws)
    chk.coverage['tx_send_exceptions'] = tx_exc
    chk.coverage['level_note'] = (
        'proof (Coq, closed) of the transmit-side statements, of check-accepts-valid, of burst / CRC-value detection under the '
        'canonical-re-encoding hypothesis, and of the gate-first lemma on the agent model; the full receive-side statement is REFUTED for the '
        'unchanged implementation: five known finding classes, all with one root cause - check_crc verifies the CRC over the re-encoding of a '
        'laxly dissected block instead of over the received octets (value-preserving re-spelling, EID text normalisation, colliding re-encoding, '
        'swallowed following block, CRC type flipped to 0). Every accepted corruption outside these five classes is a VIOLATION.')
    chk.coverage['standing_refuted_partial'] = [
        'C08_detect_refuted (colliding re-encoding), C08_detect_refuted_same_value (value-preserving re-spelling), C08_detect_refuted_eid (EID text '
        'normalisation) <-> known findings "C08 / CRC checked over re-encoding: ..."; the swallowed-block and CRC-type-0 classes are outside the Coq '
        'model (it takes no position there) and are covered by corpus witnesses only',
        'C08_detect_burst_partial, C08_detect_burst_primary_partial (hypotheses: canonical re-encoding, CRC type unchanged)']
    rep.flush()
    chk.finish(
        rule=('tx: octet strings handed to the fake CL by the real Agent for %d send requests (27 CRC-type assignments x local / typed-local / '
              'forward / report / fragment paths), non-trivial = has a block with CRC type 1 or 2; rx: valid bundles (%d) x every single-bit flip '
              'inside CRC-protected blocks + %d sampled bursts per block (span 2..16/32 bits, also ending on / straddling the CRC value) + directed '
              're-spellings (00/01->f4/f5, [plus, in both tiers, EVERY single-bit flip of every structural octet - array heads, initial octets of all items, 0x9f/0xff framing - of 9 bundles with 2-3 canonical blocks of mixed kinds and CRC types]  bstr->array head, /->#, non-shortest 18 xx) + CRC value to zeros/ones/complement, non-trivial = the '
              'corrupted octets still decode (reach check_all_crc); distinct = distinct (bundle, offset, xor pattern); plus corpus witnesses, '
              'CRC table vectors and hunt candidates' % (len(scenarios), len(tasks), bursts)),
        assumptions=[
            'crcmod is not installable offline: the implementation runs against harness/stubs/crcmod/predefined.py (table-driven); it is tied on '
            'every run to the independent polynomial-division CRC of this check and to Lib/Crc.v by the CRC table vectors and by every transmitted block',
            'harness stubs (dbus, GLib virtual loop, portion, ...) and bpdrive.BpDriver (fake convergence layer, frozen clock) are trusted-base items',
            'the independent receiver of the oracle = cbor2 block splitting (bundlegen.split_items) + crc_poly over the received block octets',
            'bursts of 2..w bits are sampled (not enumerated: 2^(w-1) patterns per position); single-bit flips are exhaustive per bundle',
            'Bundle.impl_norm_ssp (model of the EID text conversion) does not model urlsplit deleting TAB/LF/CR: on such corruptions (class "altered '
            'EID normalised back") the lax model takes no position',
            'Coq model: primary block read strictly; canonical blocks read by the lax model BundleCrc.lblock_of_items (int()/bytes() coercions of '
            'true/false, text, null); it takes no position on anything else',
        ])


if __name__ == '__main__':
    main()
