(** C01, composition: the receiver specification applied to a prefix of what
    the sender emitted yields a prefix of what was queued -- nothing truncated,
    duplicated, merged or reordered -- and success is only reported for
    bundles the peer has delivered. *)
From Coq Require Import ZArith NArith List Bool Lia ZifyBool ZifyN ZifyNat Sorted.
From DTN Require Import Lib.Bytes Model.TcpclMsg Model.TcpclSess Model.TcpclXferSpec
  Proofs.TcpclSessBasics Proofs.TcpclXferRecv Proofs.TcpclXferAbs Proofs.TcpclXferSend.
Import ListNotations.
Local Open Scope N_scope.
Ltac Zify.zify_post_hook ::= Z.div_mod_to_equations.

(** ** The receiver specification in terms of the transfer grouping *)
Lemma init_first_app h r : init_first (h ++ r) -> init_first h.
Proof.
  intros H pre g post E Hg. apply (H pre g (post ++ r)); [|exact Hg].
  rewrite E, <- app_assoc. reflexivity.
Qed.

Lemma rx_spec_xfold h : init_first h ->
  rx_spec h = (has_init h, fst (xfold (segs_of h)), complete_of (snd (xfold (segs_of h)))).
Proof.
  induction h as [|f h IH] using rev_ind; intros HI; [reflexivity|].
  rewrite rx_spec_snoc, (IH (init_first_app _ _ HI)). clear IH.
  unfold has_init at 2. rewrite existsb_app. cbn [existsb]. rewrite orb_false_r. fold (has_init h).
  destruct f as [c|m].
  - rewrite segs_of_snoc_none by reflexivity. cbn [rx_spec_step is_sess_init]. rewrite orb_false_r. reflexivity.
  - destruct m as [fl xid ext data|fl xid len|r xid| |fl r|ri r|ka smru xmru nid ext];
      try (rewrite segs_of_snoc_none by reflexivity; cbn [rx_spec_step is_sess_init]; rewrite orb_false_r; reflexivity).
    + (* segment *)
      assert (Hs : has_init h = true).
      { apply (HI h (FMsg (MXferSeg fl xid ext data)) []); [reflexivity|discriminate]. }
      rewrite Hs, segs_of_snoc_seg, xfold_snoc.
      destruct (xfold (segs_of h)) as [cur out]. cbn [fst snd rx_spec_step xfer_step is_sess_init orb].
      unfold rx_accept. destruct (has_start fl).
      * destruct cur as [[ci acc]|]; destruct (has_end fl); cbn [fst snd];
          rewrite ?complete_of_app; cbn [complete_of flat_map tr_complete tr_id tr_data fst snd app];
          rewrite ?app_nil_r; reflexivity.
      * destruct cur as [[ci acc]|]; [|reflexivity].
        destruct (ci =? xid); [|reflexivity].
        destruct (has_end fl); cbn [fst snd]; rewrite ?complete_of_app;
          cbn [complete_of flat_map tr_complete tr_id tr_data fst snd app]; reflexivity.
    + (* SESS_INIT *)
      rewrite segs_of_snoc_none by reflexivity. cbn [rx_spec_step is_sess_init]. rewrite orb_true_r. reflexivity.
Qed.

Lemma deliver_spec_xfold h : init_first h ->
  deliver_spec h = complete_of (snd (xfold (segs_of h))).
Proof. intros H. unfold deliver_spec. rewrite (rx_spec_xfold h H). reflexivity. Qed.

Lemma complete_of_transfers sg : complete_of (transfers_of sg) = complete_of (snd (xfold sg)).
Proof.
  unfold transfers_of. rewrite complete_of_app. unfold open_transfer.
  destruct (fst (xfold sg)) as [[ci acc]|]; cbn; apply app_nil_r.
Qed.

(** The closed transfers only grow. *)
Lemma xfold_out_mono r : forall st, exists ext, snd (fold_left xfer_step r st) = snd st ++ ext.
Proof.
  induction r as [|g r IH]; intros st; cbn [fold_left]; [exists []; symmetry; apply app_nil_r|].
  destruct (IH (xfer_step st g)) as [ext E]. rewrite E.
  assert (H : exists e1, snd (xfer_step st g) = snd st ++ e1).
  { destruct st as [cur out]. destruct g as [[[fl xid] ex] d]. cbn [xfer_step snd].
    destruct (has_start fl).
    - destruct cur as [[ci acc]|]; destruct (has_end fl); cbn [snd]; rewrite <- ?app_assoc; eexists; try reflexivity.
      + symmetry. apply app_nil_r.
    - destruct cur as [[ci acc]|]; [|exists []; symmetry; apply app_nil_r].
      destruct (ci =? xid); [|exists []; symmetry; apply app_nil_r].
      destruct (has_end fl); cbn [snd]; [eexists; reflexivity|exists []; symmetry; apply app_nil_r]. }
  destruct H as [e1 E1]. rewrite E1, <- app_assoc. eexists. reflexivity.
Qed.

Lemma complete_prefix sg r :
  prefix (complete_of (snd (xfold sg))) (complete_of (snd (xfold (sg ++ r)))).
Proof.
  unfold xfold. rewrite fold_left_app. destruct (xfold_out_mono r (fold_left xfer_step sg (None, []))) as [ext E].
  rewrite E, complete_of_app. eexists. reflexivity.
Qed.

Lemma no_refuse_prefix (h r : list frame) : no_refuse (h ++ r) -> no_refuse h.
Proof. intros H. apply Forall_app in H. apply H. Qed.

(** A prefix of an exact list of transfers is exact. *)
Lemma exact_prefix (q : list bytes) (D R : list (N * bytes)) :
  map fst (D ++ R) = Nseq 1 (length (D ++ R)) ->
  map snd (D ++ R) = firstn (length (D ++ R)) q ->
  map fst D = Nseq 1 (length D) /\ map snd D = firstn (length D) q.
Proof.
  intros H1 H2. rewrite map_app in *. split.
  - apply Nseq_app_prefix in H1. rewrite map_length in H1. exact H1.
  - apply (f_equal (firstn (length D))) in H2.
    rewrite firstn_app, map_length, Nat.sub_diag in H2. cbn [firstn] in H2.
    rewrite app_nil_r, firstn_firstn, app_length in H2.
    rewrite <- (map_length snd D) in H2 at 1. rewrite firstn_all in H2. rewrite H2. f_equal. lia.
Qed.

Lemma nth_error_firstn_lt' {A} (l : list A) : forall n j, (j < n)%nat -> nth_error (firstn n l) j = nth_error l j.
Proof.
  induction l as [|a l IH]; intros n j H; [rewrite firstn_nil; reflexivity|].
  destruct n as [|n]; [lia|]. destruct j as [|j]; [reflexivity|]. cbn [firstn nth_error]. apply IH. lia.
Qed.

Lemma exact_in (q : list bytes) (D : list (N * bytes)) id d :
  map fst D = Nseq 1 (length D) -> map snd D = firstn (length D) q ->
  In (id, d) D -> bundle_of q id = Some d.
Proof.
  intros H1 H2 Hin. apply In_nth_error in Hin. destruct Hin as [j Hj].
  assert (Hlt : (j < length D)%nat) by (apply nth_error_Some; congruence).
  assert (E1 : nth_error (map fst D) j = Some id) by (rewrite nth_error_map, Hj; reflexivity).
  assert (E2 : nth_error (map snd D) j = Some d) by (rewrite nth_error_map, Hj; reflexivity).
  rewrite H1 in E1. unfold Nseq in E1.
  rewrite nth_error_map, nth_error_nth' with (d := O) in E1 by (rewrite seq_length; exact Hlt).
  rewrite seq_nth in E1 by exact Hlt.
  assert (Hid : id = N.of_nat (S j)) by (cbn [option_map] in E1; change (1 + j)%nat with (S j) in E1; congruence).
  clear E1 Hj. subst id.
  rewrite H2 in E2. unfold bundle_of. destruct (N.of_nat (S j) =? 0) eqn:Z; [apply N.eqb_eq in Z; lia|].
  replace (N.to_nat (N.of_nat (S j) - 1)) with j by lia.
  rewrite <- E2. symmetry. apply nth_error_firstn_lt'. exact Hlt.
Qed.

(** ** C01, safety *)
Section Composition.
  Variables cA cB : cfg.
  Variables opsA opsB : list op.
  Let sA := run cA opsA.
  Let sB := run cB opsB.

  (** Channel hypotheses: what an endpoint has acted on is a prefix of what
      its peer has emitted (reliable FIFO octet stream + framing: C07). *)
  Hypothesis chan_AB : prefix (handled sB) (sent sA).

  (** B's deliveries are the complete transfers of the segments it has acted on. *)
  Lemma deliveries_are_transfers :
    prefix (deliver_spec (handled sB)) (complete_of (transfers_of (segs_of (sent sA)))).
  Proof.
    destruct chan_AB as [r E]. pose proof (sent_init_first cA opsA) as HI. fold sA in HI.
    rewrite E in HI. rewrite (deliver_spec_xfold _ (init_first_app _ _ HI)).
    rewrite complete_of_transfers, E, segs_of_app. apply complete_prefix.
  Qed.

  (** C01 safety, given that A handled no XFER_REFUSE. *)
  Theorem safety_no_refuse :
    no_refuse (handled sA) ->
    let D := deliver_spec (handled sB) in
    map fst D = Nseq 1 (length D) /\ map snd D = firstn (length D) (queued cA opsA).
  Proof.
    intros NR D. destruct deliveries_are_transfers as [R E].
    destruct (sender_exact cA opsA NR) as [H1 H2]. cbv zeta in H1, H2. fold sA in H1, H2.
    rewrite E in H1, H2. exact (exact_prefix _ _ _ H1 H2).
  Qed.

  Hypothesis chan_BA : prefix (handled sA) (sent sB).

  Lemma peer_sends_no_refuse : no_refuse (handled sA).
  Proof.
    destruct chan_BA as [r E]. pose proof (no_refuse_sent cB opsB) as H. fold sB in H.
    rewrite E in H. exact (no_refuse_prefix _ _ H).
  Qed.

  (** C01 safety: what B delivered is, in order, ids 1..k with the first k
      bundles A queued, byte for byte. *)
  Theorem C01_safety_core :
    let D := deliver_spec (handled sB) in
    map fst D = Nseq 1 (length D) /\ map snd D = firstn (length D) (queued cA opsA).
  Proof. exact (safety_no_refuse peer_sends_no_refuse). Qed.

  (** Success is only reported for a bundle B has delivered in full. *)
  Theorem C01_success_core id len :
    In (ESig SigSendFinished [PStrNum id; PInt len; PStr RES_SUCCESS]) (trace sA) ->
    exists d, bundle_of (queued cA opsA) id = Some d /\ len = N.of_nat (length d) /\
              In (id, d) (deliver_spec (handled sB)).
  Proof.
    intros Hs. destruct (success_acked cA opsA id len Hs) as (fl & En & Hin). fold sA in Hin.
    destruct chan_BA as [r E].
    assert (Hin' : In (FMsg (MXferAck fl id len)) (sent sB)) by (rewrite E; apply in_or_app; left; exact Hin).
    assert (Ha : In (id, len) (end_acks (sent sB))).
    { unfold end_acks. apply in_flat_map. exists (FMsg (MXferAck fl id len)). split; [exact Hin'|].
      cbn [end_ack_of]. rewrite En. left. reflexivity. }
    pose proof (end_acks_spec cB opsB) as EA. fold sB in EA. rewrite EA in Ha.
    apply in_map_iff in Ha. destruct Ha as [[i d] [Hd Hin2]]. unfold dlen in Hd. cbn [fst snd] in Hd.
    injection Hd as -> <-.
    destruct C01_safety_core as [H1 H2].
    exists d. split; [|split; [reflexivity|exact Hin2]].
    exact (exact_in _ _ _ _ H1 H2 Hin2).
  Qed.
End Composition.
