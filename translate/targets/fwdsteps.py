''' Translator target: the step structure of Agent._do_fwd (bp/agent.py)  ->  coq/Gen/FwdSteps.v

Expected shape of the ``try`` body (fail closed on anything else):

    ctr = self._fwd_queue.pop(0)
    <steps>                                     any sequence of
        for blk in [list|tuple](ctr.block_type(X)): ctr.remove_block(blk)       -> StRemoveAll <type of X> <over a copy?>
        ctr.add_block(CanonicalBlock() / PreviousNodeBlock(node=self._config.node_id))   -> StAddPrevNode
        for blk in ctr.block_type(HopCountBlock): blk.payload.count += k [; blk.delfieldval('btsd')]
                                                                                -> StBumpHop k <re-encoded?>
        c = ctr.bundle.primary.create_ts.getfieldval('dtntime')                 (names the creation time)
        if c <op> <int>:                                                        -> StAddAge, fwd_age_guard, fwd_age
            n = self.timestamp().getfieldval('dtntime')
            a = <n - c, any +/- expression over n and c>
            ctr.add_block(CanonicalBlock() / BundleAgeBlock(age=a))
    self.send_bundle(ctr); <log>; ctr.record_action('forward')

Block type codes come from the ``@CanonicalBlock.bind_type(<n>)`` decorators of bp/encoding/blocks.py.
The generated file depends on the Coq standard library only.  Proofs/BpFwdTie.v interprets [fwd_steps] over the
primitives of Model/BpFwd.v and proves the hand-written [fwd_blocks] equal to that interpretation, so iterating
the live list again, dropping the re-encoding, another increment, another order of the steps, another guard or
another age expression either fails here or breaks a theorem of Props/C11.v.
'''
import ast
import os


class TranslateError(Exception):
    pass


def _name(node, ident=None):
    return isinstance(node, ast.Name) and (ident is None or node.id == ident)


def _attr_chain(node):
    ''' a.b.c -> ['a', 'b', 'c'] (None if not a pure name/attribute chain) '''
    parts = []
    while isinstance(node, ast.Attribute):
        parts.append(node.attr)
        node = node.value
    if not isinstance(node, ast.Name):
        return None
    parts.append(node.id)
    return list(reversed(parts))


def _method_call(node, chain, nargs=None):
    ''' node is Call of the attribute chain (e.g. ['ctr', 'remove_block']) ; returns its args or None '''
    if not (isinstance(node, ast.Call) and _attr_chain(node.func) == chain and not node.keywords):
        return None
    if nargs is not None and len(node.args) != nargs:
        return None
    return node.args


def _is_log(stmt):
    return (isinstance(stmt, ast.Expr) and isinstance(stmt.value, ast.Call)
            and (_attr_chain(stmt.value.func) or [None, None])[:2] == ['self', '_logger'])


def block_types(repo_src):
    ''' class name -> type code, from the bind_type decorators '''
    with open(os.path.join(repo_src, 'bp', 'encoding', 'blocks.py')) as infile:
        tree = ast.parse(infile.read())
    out = {}
    for node in tree.body:
        if not isinstance(node, ast.ClassDef):
            continue
        for deco in node.decorator_list:
            args = _method_call(deco, ['CanonicalBlock', 'bind_type'], 1)
            if args is not None and isinstance(args[0], ast.Constant) and isinstance(args[0].value, int):
                out[node.name] = args[0].value
    return out


def _block_type_iter(node):
    ''' [list|tuple](ctr.block_type(X)) -> (X, over_copy) '''
    copy = False
    if isinstance(node, ast.Call) and _name(node.func) and node.func.id in ('list', 'tuple') and len(node.args) == 1 and not node.keywords:
        copy = True
        node = node.args[0]
    args = _method_call(node, ['ctr', 'block_type'], 1)
    if args is None or not _name(args[0]):
        raise TranslateError('loop does not iterate over [list](ctr.block_type(<Class>))')
    return (args[0].id, copy)


def _new_block(node, cls):
    ''' ctr.add_block(CanonicalBlock() / cls(<one keyword>)) -> (keyword name, value node) or None '''
    if not isinstance(node, ast.Expr):
        return None
    args = _method_call(node.value, ['ctr', 'add_block'], 1)
    if args is None or not (isinstance(args[0], ast.BinOp) and isinstance(args[0].op, ast.Div)):
        return None
    (left, right) = (args[0].left, args[0].right)
    if not (isinstance(left, ast.Call) and _name(left.func, 'CanonicalBlock') and not left.args and not left.keywords):
        return None
    if not (isinstance(right, ast.Call) and _name(right.func, cls) and not right.args and len(right.keywords) == 1):
        return None
    return (right.keywords[0].arg, right.keywords[0].value)


def _getfield_dtntime(node, chain):
    args = _method_call(node, chain + ['getfieldval'], 1)
    return args is not None and isinstance(args[0], ast.Constant) and args[0].value == 'dtntime'


def _arith(node, names):
    ''' +/- expression over the two time names -> Coq Z term '''
    if isinstance(node, ast.Name) and node.id in names:
        return names[node.id]
    if isinstance(node, ast.Constant) and isinstance(node.value, int) and not isinstance(node.value, bool) and node.value >= 0:
        return '%d' % node.value
    if isinstance(node, ast.BinOp) and isinstance(node.op, (ast.Add, ast.Sub)):
        return '(%s %s %s)' % (_arith(node.left, names), '+' if isinstance(node.op, ast.Add) else '-', _arith(node.right, names))
    raise TranslateError('age expression outside the +/- fragment: %s' % ast.dump(node))


CMP = {ast.NotEq: 'negb (ctime =? %d)', ast.Eq: '(ctime =? %d)', ast.Gt: '(%d <? ctime)', ast.GtE: '(%d <=? ctime)',
       ast.Lt: '(ctime <? %d)', ast.LtE: '(ctime <=? %d)'}


def collect(repo_src):
    types = block_types(repo_src)
    with open(os.path.join(repo_src, 'bp', 'agent.py')) as infile:
        tree = ast.parse(infile.read())
    agent = [node for node in tree.body if isinstance(node, ast.ClassDef) and node.name == 'Agent']
    if not agent:
        raise TranslateError('class Agent not found')
    func = [node for node in agent[0].body if isinstance(node, ast.FunctionDef) and node.name == '_do_fwd']
    if not func:
        raise TranslateError('Agent._do_fwd not found')
    tries = [stmt for stmt in func[0].body if isinstance(stmt, ast.Try)]
    if len(tries) != 1:
        raise TranslateError('_do_fwd does not contain exactly one try statement')
    body = [stmt for stmt in tries[0].body if not _is_log(stmt)]
    if len(body) < 3:
        raise TranslateError('try body too short')
    first = body[0]
    if not (isinstance(first, ast.Assign) and len(first.targets) == 1 and _name(first.targets[0], 'ctr')
            and _method_call(first.value, ['self', '_fwd_queue', 'pop'], 1) is not None):
        raise TranslateError('try body does not start with ctr = self._fwd_queue.pop(0)')
    send = body[-2]
    if not (isinstance(send, ast.Expr) and (_method_call(send.value, ['self', 'send_bundle'], 1) or [None])[0] is not None
            and _name(send.value.args[0], 'ctr')):
        raise TranslateError('the steps are not followed by self.send_bundle(ctr)')
    last = body[-1]
    rec = _method_call(last.value, ['ctr', 'record_action'], 1) if isinstance(last, ast.Expr) else None
    if rec is None or not (isinstance(rec[0], ast.Constant) and rec[0].value == 'forward'):
        raise TranslateError("try body does not end with ctr.record_action('forward')")
    steps = []
    guard = None
    age = None
    creation = None
    for stmt in body[1:-2]:
        if isinstance(stmt, ast.For):
            if stmt.orelse or not _name(stmt.target):
                raise TranslateError('for loop with else / structured target')
            var = stmt.target.id
            (cls, copy) = _block_type_iter(stmt.iter)
            if cls not in types:
                raise TranslateError('class %s is not bound to a block type' % cls)
            inner = [item for item in stmt.body if not _is_log(item)]
            if len(inner) == 1 and isinstance(inner[0], ast.Expr):
                args = _method_call(inner[0].value, ['ctr', 'remove_block'], 1)
                if args is not None and _name(args[0], var):
                    steps.append('StRemoveAll %d %s' % (types[cls], 'true' if copy else 'false'))
                    continue
            if inner and isinstance(inner[0], ast.AugAssign) and isinstance(inner[0].op, ast.Add) \
                    and _attr_chain(inner[0].target) == [var, 'payload', 'count'] \
                    and isinstance(inner[0].value, ast.Constant) and isinstance(inner[0].value.value, int) \
                    and not isinstance(inner[0].value.value, bool) and inner[0].value.value >= 0 and types[cls] == 10:
                rest = inner[1:]
                reenc = False
                if len(rest) == 1 and isinstance(rest[0], ast.Expr):
                    args = _method_call(rest[0].value, [var, 'delfieldval'], 1)
                    if args is not None and isinstance(args[0], ast.Constant) and args[0].value == 'btsd':
                        reenc = True
                        rest = []
                if rest:
                    raise TranslateError('hop-count loop body has statements other than count += k; delfieldval("btsd")')
                steps.append('StBumpHop %d %s' % (inner[0].value.value, 'true' if reenc else 'false'))
                continue
            raise TranslateError('unrecognised loop over block_type(%s)' % cls)
        prev = _new_block(stmt, 'PreviousNodeBlock')
        if prev is not None:
            if prev[0] != 'node' or _attr_chain(prev[1]) != ['self', '_config', 'node_id']:
                raise TranslateError('the Previous Node block does not name self._config.node_id')
            steps.append('StAddPrevNode')
            continue
        if isinstance(stmt, ast.Assign) and len(stmt.targets) == 1 and _name(stmt.targets[0]) \
                and _getfield_dtntime(stmt.value, ['ctr', 'bundle', 'primary', 'create_ts']):
            if creation is not None:
                raise TranslateError('creation time read twice')
            creation = stmt.targets[0].id
            continue
        if isinstance(stmt, ast.If):
            if stmt.orelse or creation is None or guard is not None:
                raise TranslateError('unexpected if statement')
            test = stmt.test
            if not (isinstance(test, ast.Compare) and len(test.ops) == 1 and type(test.ops[0]) in CMP and _name(test.left, creation)
                    and isinstance(test.comparators[0], ast.Constant) and isinstance(test.comparators[0].value, int)
                    and not isinstance(test.comparators[0].value, bool) and test.comparators[0].value >= 0):
                raise TranslateError('age guard is not <creation time> <cmp> <non-negative int>')
            guard = CMP[type(test.ops[0])] % test.comparators[0].value
            inner = [item for item in stmt.body if not _is_log(item)]
            if len(inner) != 3:
                raise TranslateError('age branch is not: read the clock; compute the age; add the block')
            (rd, comp, add) = inner
            if not (isinstance(rd, ast.Assign) and len(rd.targets) == 1 and _name(rd.targets[0]) and isinstance(rd.value, ast.Call)
                    and isinstance(rd.value.func, ast.Attribute) and rd.value.func.attr == 'getfieldval'
                    and _method_call(rd.value.func.value, ['self', 'timestamp'], 0) is not None
                    and len(rd.value.args) == 1 and isinstance(rd.value.args[0], ast.Constant) and rd.value.args[0].value == 'dtntime'):
                raise TranslateError('the clock is not read as self.timestamp().getfieldval("dtntime")')
            names = {rd.targets[0].id: 'now', creation: 'ctime'}
            if len(names) != 2 or not (isinstance(comp, ast.Assign) and len(comp.targets) == 1 and _name(comp.targets[0])):
                raise TranslateError('age is not computed by one assignment')
            age = _arith(comp.value, names)
            blk = _new_block(add, 'BundleAgeBlock')
            if blk is None or blk[0] != 'age' or not _name(blk[1], comp.targets[0].id):
                raise TranslateError('the Bundle Age block does not carry the computed age')
            steps.append('StAddAge')
            continue
        raise TranslateError('unrecognised statement in _do_fwd at line %d' % stmt.lineno)
    if guard is None or age is None:
        raise TranslateError('no Bundle Age step found')
    return (steps, guard, age)


def generate(repo_src):
    (steps, guard, age) = collect(repo_src)
    lines = ['(* GENERATED by translate/targets/fwdsteps.py from Agent._do_fwd (bp/agent.py) and the bind_type decorators',
             '   of bp/encoding/blocks.py: the steps applied to the block list of a bundle that is forwarded, in the order',
             '   of the source.  Do not edit. *)',
             'From Coq Require Import NArith ZArith List Bool.',
             'Import ListNotations.',
             '',
             'Inductive fwd_step : Type :=',
             '| StRemoveAll (btype : N) (over_copy : bool)   (* for blk in [list](ctr.block_type(X)): ctr.remove_block(blk) *)',
             '| StAddPrevNode                                (* add_block(CanonicalBlock() / PreviousNodeBlock(node = own node ID)) *)',
             '| StBumpHop (delta : N) (reencode : bool)      (* hop count += delta [; delfieldval btsd] *)',
             '| StAddAge.                                    (* if guard: add_block(CanonicalBlock() / BundleAgeBlock(age)) *)',
             '',
             'Definition fwd_steps : list fwd_step :=',
             '  [' + '; '.join(steps) + '].',
             '',
             '(* the condition under which the Bundle Age block is added, on the received creation time *)',
             'Definition fwd_age_guard (ctime : N) : bool := (%s)%%N.' % guard,
             '',
             '(* the age, a Python int, from the clock reading and the received creation time *)',
             'Definition fwd_age (now ctime : Z) : Z := (%s)%%Z.' % age,
             '']
    return {'Gen/FwdSteps.v': '\n'.join(lines)}
