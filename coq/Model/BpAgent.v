(** Executable model of the BPv7 agent's bundle reception path
    (/repo/src/bp/agent.py [recv_bundle], [_do_fwd], [send_bundle], [_finish_bundle];
     bp/util.py [bundle_ident], [record_action], [create_report];
     bp/app/admin.py, sand.py, safe.py routing steps; bp/app/fragment.py [_reassemble] and the outcome of
     [_create]; bp/app/bpsec.py outcome of [_verify_bcb]/[_verify_bib]).

    Definitions only.  The model follows the CODE (probed 2026-09-23), including where it deviates from
    properties C10/C19:
      - the RX routing step records the route's action ('forward') in [actions] at routing time; when
        forwarding fails [_do_fwd] removes it again before recording delete / NO_ROUTE.  One case is left
        where 'forwarded' is asserted although nothing reached a CL: the fragment step took the bundle
        over on a route whose CL is not attached (every fragment then fails in its own [send_bundle]);
      - [_apply_primary] rewrites a zero creation time before transmission, and the report built afterwards
        names the rewritten timestamp as its subject;
      - fragments that are routed to 'deliver' have their actions cleared by the reassembly step (no
        report of any kind for the fragment itself);
      - a bundle matching no route is dropped silently (no report);
      - a bundle larger than the route MTU is handed to the CL as fragments (the fragment-creation TX
        step takes over the transmission and [send_bundle] returns quietly, so [_do_fwd] records
        'forward'); when fragmentation is infeasible the step clears the route and raises, [send_bundle]
        raises "no sender" and [_do_fwd] records delete / NO_ROUTE.

    Abstractions (inputs of the model, decided elsewhere):
      [b_crc_ok]  result of [check_all_crc] (C08);   [b_sec]  outcome of the BPSec verification steps when
      the bundle is to be delivered (C12): [Some reason] = failure;   [b_prep]  whether the block
      insertions of [_do_fwd] raise (C11's container model; with the current code they cannot - inserted
      blocks get fresh numbers - and the harness always passes 0);
      [b_size] encoded size offered to the fragment step and [b_fragfeas] whether every fragment fits the
      route MTU (C05's budget);  [t_rpt] how a status report fares against the route MTU (0 sent whole,
      1 infeasible, 2 fragmented);
      [matches]  Python [re.match] of a route pattern on an EID (Section variable);
      EIDs are numbers, 0 = dtn:none;  wall clock frozen ([a_now]), [a_tsn] = calls made to the agent's
      [Timestamper] so far (with a frozen clock the k-th call returns sequence number k-1). *)
From Coq Require Import NArith List Bool.
From DTN Require Import Gen.ReportTable Gen.RecvTail.
Import ListNotations.
Local Open Scope N_scope.

Definition eid := N.
Definition EID_NONE : eid := 0.

(** Keys of [BundleContainer.actions]. [AOther] stands for any other string a route may carry. *)
Inductive action := ARecv | AFwd | ADlv | ADel | AOther.

Definition action_eqb (x y : action) : bool :=
  match x, y with
  | ARecv, ARecv | AFwd, AFwd | ADlv, ADlv | ADel, ADel | AOther, AOther => true
  | _, _ => false
  end.

Definition action_code (x : action) : N :=
  match x with ARecv => 0 | AFwd => 1 | ADlv => 2 | ADel => 3 | AOther => 4 end.

(** [create_report]'s FLAGS and STATUS_FIELD tables, from the translated file. *)
Definition req_flag (s : action) : option N :=
  match s with
  | ARecv => Some req_flag_receive
  | AFwd => Some req_flag_forward
  | ADlv => Some req_flag_deliver
  | ADel => Some req_flag_delete
  | AOther => None
  end.

Definition status_index (s : action) : option nat :=
  match s with
  | ARecv => Some status_index_receive
  | AFwd => Some status_index_forward
  | ADlv => Some status_index_deliver
  | ADel => Some status_index_delete
  | AOther => None
  end.

Record bundle := mkBundle {
  b_src : eid;
  b_dst : eid;
  b_rpt : eid;
  b_time : N;
  b_seq : N;
  b_frag : option (N * N);      (* fragment offset, total ADU length; [Some] iff IS_FRAGMENT is set *)
  b_flags : N;                  (* bundle processing control flags without IS_FRAGMENT *)
  b_paylen : N;
  b_crc_ok : bool;
  b_sec : option N;
  b_prep : N;                   (* 0 none, 1 previous-node insertion raises, 2 bundle-age insertion raises *)
  b_size : N;
  b_fragfeas : bool;
  b_refuse : bool               (* the application the bundle is delivered to records 'delete' (admin element: ACME record it rejects) *)
}.

Definition is_frag (b : bundle) : bool := match b_frag b with Some _ => true | None => false end.
Definition has_flag (flags f : N) : bool := negb (N.land flags f =? 0).

(** [BundleContainer.bundle_ident]: (source, time, seqno) plus (offset, total) for fragments. *)
Definition ident := (eid * N * N * option (N * N))%type.
Definition ident_of (b : bundle) : ident := (b_src b, b_time b, b_seq b, b_frag b).

Definition frag_eqb (x y : option (N * N)) : bool :=
  match x, y with
  | None, None => true
  | Some (a, b), Some (c, d) => (a =? c) && (b =? d)
  | _, _ => false
  end.

Definition ident_eqb (i j : ident) : bool :=
  let '(s1, t1, q1, f1) := i in
  let '(s2, t2, q2, f2) := j in
  (s1 =? s2) && (t1 =? t2) && (q1 =? q2) && frag_eqb f1 f2.

Definition mem (x : action) (l : list action) : bool := existsb (action_eqb x) l.
(** [record_action]: dict assignment - a new key is appended, an existing key keeps its place. *)
Definition add (x : action) (l : list action) : list action := if mem x l then l else l ++ [x].
Definition remove (x : action) (l : list action) : list action := filter (fun y => negb (action_eqb x y)) l.

Record txroute := mkTx { t_pat : N; t_cl : bool; t_mtu : option N; t_rpt : N }.

(** Reassembly state of bp/app/fragment.py, keyed by the first three identity components. *)
Record reasm := mkReasm {
  ra_src : eid; ra_time : N; ra_seq : N;
  ra_total : N;
  ra_first : option bundle;
  ra_segs : list (N * N)        (* (offset, length) of every fragment injected so far *)
}.

Record agent := mkAgent {
  a_node : eid;
  a_apps : list eid;            (* endpoints the loaded applications route to 'deliver' (SAND group endpoint, ...) *)
  a_rx : list (N * action);
  a_tx : list txroute;
  a_seen : list ident;
  a_reasm : list reasm;
  a_now : N;
  a_tsn : N
}.

Definition set_seen (a : agent) (s : list ident) : agent :=
  mkAgent (a_node a) (a_apps a) (a_rx a) (a_tx a) s (a_reasm a) (a_now a) (a_tsn a).
Definition set_reasm (a : agent) (r : list reasm) : agent :=
  mkAgent (a_node a) (a_apps a) (a_rx a) (a_tx a) (a_seen a) r (a_now a) (a_tsn a).
(** One call of [Agent.timestamp] (frozen clock). *)
Definition tick (a : agent) : agent :=
  mkAgent (a_node a) (a_apps a) (a_rx a) (a_tx a) (a_seen a) (a_reasm a) (a_now a) (a_tsn a + 1).

Definition set_ts (b : bundle) (t q : N) : bundle :=
  mkBundle (b_src b) (b_dst b) (b_rpt b) t q (b_frag b) (b_flags b) (b_paylen b) (b_crc_ok b) (b_sec b)
           (b_prep b) (b_size b) (b_fragfeas b) (b_refuse b).

(** The status report of RFC 9171 6.1.1 as built by [create_report] and completed by [_apply_primary]. *)
Record report := mkReport {
  r_dst : eid;                  (* primary block destination *)
  r_src : eid;                  (* filled with the node id by [_apply_primary] *)
  r_rpt : eid;                  (* report-to of the report bundle itself *)
  r_flags : N;                  (* bundle flags of the report bundle *)
  r_crc : N;                    (* CRC type of both blocks *)
  r_time : N; r_seq : N;        (* creation timestamp of the report bundle *)
  r_status : list bool;         (* StatusInfoArray, in field order *)
  r_with_time : bool;           (* asserted items carry a time *)
  r_reason : N;
  r_subj_src : eid; r_subj_time : N; r_subj_seq : N
}.

Definition asserted (r : report) (s : action) : bool :=
  match status_index s with
  | Some k => nth k (r_status r) false
  | None => false
  end.

Definition requested (b : bundle) (s : action) : bool :=
  match req_flag s with
  | Some f => has_flag (b_flags b) f
  | None => false
  end.

(** [BundleContainer.create_report] (creation timestamp and source are filled in later by
    [_apply_primary]; here they are passed in). *)
Definition create_report (node : eid) (ts : N * N) (b : bundle) (acts : list action) (reason : option N)
  : option report :=
  if b_rpt b =? EID_NONE then None
  else
    let hit := filter (fun s => requested b s) acts in
    match hit with
    | [] => None
    | _ =>
      Some (mkReport (b_rpt b) node EID_NONE report_bundle_flags report_crc_type (fst ts) (snd ts)
              (map (fun k => existsb (fun s => match status_index s with
                                                | Some j => Nat.eqb j k
                                                | None => false
                                                end) hit)
                   (seq 0 status_array_len))
              (has_flag (b_flags b) status_time_flag)
              (match reason with
               | Some rc => if rc =? 0 then default_reason else rc
               | None => default_reason
               end)
              (b_src b) (b_time b) (b_seq b))
    end.

Inductive event :=
| EvDeliver (subject : bundle)
| EvTx (subject : bundle) (sent : bundle) (route : nat)    (* whole bundle handed to the CL of tx route [route] *)
| EvFrags (subject : bundle) (sent : bundle) (route : nat)  (* the bundle handed to the CL as fragments *)
| EvReport (subject : bundle) (r : report) (route : nat)   (* status report handed to the CL *)
| EvReportFrags (subject : bundle) (r : report) (route : nat)  (* status report handed to the CL as fragments *)
| EvSendFail (subject : bundle) (is_report : bool).        (* [send_bundle] raised: nothing reaches a CL *)

Definition ev_subject (e : event) : bundle :=
  match e with
  | EvDeliver b | EvTx b _ _ | EvFrags b _ _ | EvReport b _ _ | EvReportFrags b _ _ | EvSendFail b _ => b
  end.

Fixpoint find_idx {A : Type} (f : A -> bool) (l : list A) (k : nat) : option (nat * A) :=
  match l with
  | [] => None
  | x :: t => if f x then Some (k, x) else find_idx f t (S k)
  end.

(** Coverage test of the reassembly step: the union of the non-empty segments is exactly [0, total). *)
Definition seg_end (s : N * N) : N := fst s + snd s.
Definition extend (segs : list (N * N)) (pos : N) : N :=
  fold_left (fun p s => if (0 <? snd s) && (fst s <=? p) && (p <? seg_end s) then seg_end s else p) segs pos.
Definition covered (segs : list (N * N)) (total : N) : bool :=
  forallb (fun s => (snd s =? 0) || (seg_end s <=? total)) segs
  && (Nat.iter (length segs) (extend segs) 0 =? total).

Inductive rres := RPending | RDone (rb : bundle) | RGlitch.

Definition ra_match (b : bundle) (r : reasm) : bool :=
  (ra_src r =? b_src b) && (ra_time r =? b_time b) && (ra_seq r =? b_seq b).

Definition frag_off (b : bundle) : N := match b_frag b with Some (o, _) => o | None => 0 end.
Definition frag_total (b : bundle) : N := match b_frag b with Some (_, t) => t | None => 0 end.

(** The bundle synthesised from the first fragment when reassembly completes. *)
Definition reassembled (f : bundle) (total : N) : bundle :=
  mkBundle (b_src f) (b_dst f) (b_rpt f) (b_time f) (b_seq f) None (b_flags f) total true (b_sec f)
           (b_prep f) (b_size f) (b_fragfeas f) (b_refuse f).

Definition ra_inject (r : reasm) (b : bundle) : reasm :=
  mkReasm (ra_src r) (ra_time r) (ra_seq r) (ra_total r)
          (if frag_off b =? 0 then Some b else ra_first r)
          (ra_segs r ++ [(frag_off b, b_paylen b)]).

Fixpoint reasm_step (l : list reasm) (b : bundle) : list reasm * rres :=
  match l with
  | [] =>
    let r := ra_inject (mkReasm (b_src b) (b_time b) (b_seq b) (frag_total b) None []) b in
    if covered (ra_segs r) (ra_total r)
    then match ra_first r with
         | Some f => ([], RDone (reassembled f (ra_total r)))
         | None => ([], RGlitch)
         end
    else ([r], RPending)
  | r0 :: t =>
    if ra_match b r0 then
      let r := ra_inject r0 b in
      if covered (ra_segs r) (ra_total r)
      then match ra_first r with
           | Some f => (t, RDone (reassembled f (ra_total r)))
           | None => (t, RGlitch)
           end
      else (r :: t, RPending)
    else let '(t', res) := reasm_step t b in (r0 :: t', res)
  end.

Section WithMatch.
  (** [matches pat e]: [pattern.match(eid) is not None] for the route pattern numbered [pat]. *)
  Variable matches : N -> eid -> bool.

  (** RX chain steps -1 (administrative / application routing) and 0 (static routing, first match). *)
  Definition local_dest (a : agent) (b : bundle) : bool :=
    (b_dst b =? a_node a) || existsb (N.eqb (b_dst b)) (a_apps a).

  Definition rx_lookup (a : agent) (b : bundle) : option (N * action) :=
    find (fun r => matches (fst r) (b_dst b)) (a_rx a).

  Definition route_actions (a : agent) (b : bundle) : list action :=
    if local_dest a b then [ARecv; ADlv]
    else match rx_lookup a b with
         | Some r => add (snd r) [ARecv]
         | None => [ARecv]
         end.

  (** TX chain as far as it decides what reaches the CL. *)
  Inductive sendres := SentWhole (k : nat) | SentFrags (k : nat) (cl : bool) | SendRaise.

  Definition should_fragment (r : txroute) (size : N) (nofrag isfrag : bool) : bool :=
    match t_mtu r with
    | Some m => (m <? size) && negb nofrag && negb isfrag
    | None => false
    end.

  (** [send_bundle] of a data bundle.  When the fragment step takes over, each fragment is sent through
      [send_bundle] again (same destination, hence same route; a fragment is never fragmented): it
      reaches the CL iff the route's CL is attached ([cl]). *)
  Definition send_path (a : agent) (dst : eid) (size : N) (nofrag isfrag feas : bool) : sendres :=
    match find_idx (fun r => matches (t_pat r) dst) (a_tx a) 0 with
    | None => SendRaise
    | Some (k, r) =>
      if should_fragment r size nofrag isfrag then
        if feas then SentFrags k (t_cl r) else SendRaise
      else if t_cl r then SentWhole k else SendRaise
    end.

  (** [send_bundle] of a status report. *)
  Definition send_report_path (a : agent) (dst : eid) : sendres :=
    match find_idx (fun r => matches (t_pat r) dst) (a_tx a) 0 with
    | None => SendRaise
    | Some (k, r) =>
      if t_rpt r =? 0 then (if t_cl r then SentWhole k else SendRaise)
      else if t_rpt r =? 1 then SendRaise
      else SentFrags k (t_cl r)
    end.

  (** [_finish_bundle]: build the report; its deferred [send_bundle] stamps it and looks up a route. *)
  Definition finish (a : agent) (subject cur : bundle) (acts : list action) (reason : option N)
    : agent * list event :=
    match create_report (a_node a) (a_now a, a_tsn a) cur acts reason with
    | None => (a, [])
    | Some r =>
      let a1 := tick a in
      match send_report_path a1 (r_dst r) with
      | SentWhole k => (a1, [EvReport subject r k])
      | SentFrags k true => (a1, [EvReportFrags subject r k])
      | _ => (a1, [EvSendFail subject true])
      end
    end.

  (** [_do_fwd] up to and including [send_bundle] of the forwarded bundle: the agent (clock calls), the
      bundle as mutated by [_apply_primary], the actions and reason recorded, and what reached the CL. *)
  Definition prep_fails (b : bundle) : bool :=
    (b_prep b =? 1) || (negb (b_time b =? 0) && (b_prep b =? 2)).

  Definition fwd_plan (a : agent) (b : bundle) (acts : list action) (reason : option N)
    : agent * bundle * list action * option N * list event :=
    if b_prep b =? 1 then (a, b, add ADel (remove AFwd acts), Some fwd_fail_reason, [])
    else
      let a1 := if b_time b =? 0 then a else tick a in                 (* age = timestamp() - creation *)
      if negb (b_time b =? 0) && (b_prep b =? 2) then (a1, b, add ADel (remove AFwd acts), Some fwd_fail_reason, [])
      else
        (* send_bundle: _apply_primary replaces a zero creation time *)
        let a2 := if b_time b =? 0 then tick a1 else a1 in
        let b' := if b_time b =? 0 then set_ts b (a_now a1) (a_tsn a1) else b in
        match send_path a2 (b_dst b') (b_size b') (has_flag (b_flags b') FLAG_NO_FRAGMENT) (is_frag b') (b_fragfeas b') with
        | SentWhole k => (a2, b', add AFwd acts, reason, [EvTx b b' k])
        | SentFrags k cl => (a2, b', add AFwd acts, reason, [if cl then EvFrags b b' k else EvSendFail b false])
        | SendRaise => (a2, b', add ADel (remove AFwd acts), Some fwd_fail_reason, [EvSendFail b false])
        end.

  Definition do_fwd (a : agent) (b : bundle) (acts : list action) (reason : option N) : agent * list event :=
    let '(a2, cur, acts', reason', pre) := fwd_plan a b acts reason in
    let '(a3, ev) := finish a2 b cur acts' reason' in
    (a3, pre ++ ev).

  (** What [recv_bundle] does after the RX chain. [captured]: the chain reached the application steps
      with 'deliver' recorded (delivery callback). *)
  Definition final (a : agent) (b : bundle) (acts : list action) (reason : option N) (captured : bool)
    : agent * list event :=
    let ev0 := if captured then [EvDeliver b] else [] in
    let '(ad, evd) := if mem ADel acts then finish a b b acts reason else (a, []) in
    if mem ADel acts && tail_delete_returns then (ad, ev0 ++ evd)
    else
      let '(a1, ev1) := if mem ADlv acts then finish ad b b acts reason else (ad, []) in
      let '(a2, ev2) := if mem AFwd acts then do_fwd a1 b acts reason else (a1, []) in
      (a2, ev0 ++ evd ++ ev1 ++ ev2).

  (** RX steps 19/20 (BPSec): a verification failure replaces 'deliver' by 'delete' with the reason. *)
  Definition sec_step (b : bundle) (acts0 : list action) : list action * option N :=
    match b_sec b with
    | Some rc => if mem ADlv acts0 then (add ADel (remove ADlv acts0), Some rc) else (acts0, None)
    | None => (acts0, None)
    end.

  (** RX step 30, administrative handling: the admin element takes a non-fragment bundle addressed to the node
      id that carries 'deliver'; an ACME record it rejects makes it record 'delete' (no reason) - AFTER the
      delivery callback. *)
  Definition app_step (a : agent) (b : bundle) (acts : list action) : list action :=
    if b_refuse b && mem ADlv acts && (b_dst b =? a_node a) && negb (is_frag b) then add ADel acts else acts.

  (** Is this bundle processed at all ([recv_bundle] past its three gates)? *)
  Definition accepted (a : agent) (b : bundle) : bool :=
    b_crc_ok b && negb (b_src b =? a_node a) && negb (existsb (ident_eqb (ident_of b)) (a_seen a)).

  (** One call of [recv_bundle]; the third component is the reassembled bundle re-injected through
      [glib.idle_add(self._agent.recv_bundle, rctr)], if any. *)
  Definition recv_core (a : agent) (b : bundle) : agent * list event * option bundle :=
    if negb (accepted a b) then (a, [], None)
    else
      let a0 := set_seen a (a_seen a ++ [ident_of b]) in
      let acts0 := route_actions a0 b in
      if mem ADlv acts0 && is_frag b then
        (* step 10, fragment reassembly: interrupts the chain and clears the actions *)
        let '(rs, res) := reasm_step (a_reasm a0) b in
        let a1 := set_reasm a0 rs in
        match res with
        | RPending => (a1, [], None)
        | RDone rb => (a1, [], Some rb)
        | RGlitch => let '(a2, ev) := final a1 b acts0 None false in (a2, ev, None)
        end
      else
        (* steps 19/20, BPSec verification: only for bundles to be delivered *)
        let '(a2, ev) := final a0 b (app_step a0 b (fst (sec_step b acts0))) (snd (sec_step b acts0))
                               (mem ADlv (fst (sec_step b acts0))) in (a2, ev, None).

  (** One bundle from the CL, with everything it triggers on the idle queue: a list of
      (processed bundle, events) - the bundle itself and possibly the reassembled one. *)
  Definition proc := (bundle * list event)%type.

  Definition recv (a : agent) (b : bundle) : agent * list proc :=
    let '(a1, ev1, re) := recv_core a b in
    match re with
    | None => (a1, [(b, ev1)])
    | Some rb => let '(a2, ev2, _) := recv_core a1 rb in (a2, [(b, ev1); (rb, ev2)])
    end.

  Fixpoint run (a : agent) (hist : list bundle) : agent * list proc :=
    match hist with
    | [] => (a, [])
    | b :: t => let '(a1, p1) := recv a b in let '(a2, p2) := run a1 t in (a2, p1 ++ p2)
    end.

  (** Processings that acted on identity [i]. *)
  Definition acts_on (i : ident) (ps : list proc) : list proc :=
    filter (fun p => ident_eqb (ident_of (fst p)) i && negb (match snd p with [] => true | _ => false end)) ps.

  Definition has_deliver (evs : list event) : bool :=
    existsb (fun e => match e with EvDeliver _ => true | _ => false end) evs.
  Definition has_tx (evs : list event) : bool :=
    existsb (fun e => match e with EvTx _ _ _ | EvFrags _ _ _ => true | _ => false end) evs.
  Definition reports_of (evs : list event) : list report :=
    flat_map (fun e => match e with EvReport _ r _ | EvReportFrags _ r _ => [r] | _ => [] end) evs.

  (** What happened to the processed bundle, read off the events (independent of [actions]). *)
  Definition occurred (evs : list event) (s : action) : bool :=
    match s with
    | ARecv => true
    | ADlv => has_deliver evs
    | AFwd => has_tx evs
    | ADel => negb (has_deliver evs) && negb (has_tx evs)
    | AOther => false
    end.

  (** ---- rendering for the correspondence (nested lists of numbers) ---- *)
  Definition render_frag (f : option (N * N)) : list N :=
    match f with Some (o, t) => [1; o; t] | None => [0; 0; 0] end.
  Definition render_ident (b : bundle) : list N :=
    [b_src b; b_time b; b_seq b] ++ render_frag (b_frag b).
  Definition nb (x : bool) : N := if x then 1 else 0.

  Definition render_event (e : event) : list N :=
    match e with
    | EvDeliver b => [0] ++ render_ident b ++ [b_dst b]
    | EvTx _ s k => [1] ++ render_ident s ++ [b_dst s; N.of_nat k]
    | EvFrags _ s k => [2] ++ render_ident s ++ [b_dst s; N.of_nat k]
    | EvReport _ r k =>
      [3; r_dst r; r_src r; r_rpt r; r_flags r; r_crc r; r_time r; r_seq r]
        ++ map nb (r_status r)
        ++ [nb (r_with_time r); r_reason r; r_subj_src r; r_subj_time r; r_subj_seq r; N.of_nat k]
    | EvReportFrags _ r k => [5; r_dst r; N.of_nat k]
    | EvSendFail _ isr => [4; nb isr]
    end.

  Definition render_procs (ps : list proc) : list (list (list N)) :=
    map (fun p => map render_event (snd p)) ps.

  Definition render_seen (a : agent) : list (list N) :=
    map (fun i => let '(s, t, q, f) := i in [s; t; q] ++ render_frag f) (a_seen a).

  (** Whole history: per input bundle the events of each processing, then the final seen list and the
      number of pending reassemblies. *)
  Fixpoint run_render (a : agent) (hist : list bundle) : list (list (list (list N))) * list (list N) * N :=
    match hist with
    | [] => ([], render_seen a, N.of_nat (length (a_reasm a)))
    | b :: t =>
      let '(a1, p1) := recv a b in
      let '(out, seen, pend) := run_render a1 t in
      (render_procs p1 :: out, seen, pend)
    end.
End WithMatch.

(** [matches] supplied as a table of (pattern, eid) pairs that match (computed by the harness with
    Python's [re]). *)
Definition table_matches (tbl : list (N * N)) (pat : N) (e : eid) : bool :=
  existsb (fun pe => (fst pe =? pat) && (snd pe =? e)) tbl.
