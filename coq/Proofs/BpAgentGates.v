(** The admission gates of Agent.recv_bundle, in the order found in the source (Gen/RecvGates.v), against
    what Model/BpAgent.v's [recv_core] does before the RX chain runs. *)
From Coq Require Import NArith List Bool.
From DTN Require Import Gen.ReportTable Gen.RecvGates Model.BpAgent Proofs.BpAgentProofs.
Import ListNotations.
Local Open Scope N_scope.

(** State of the walk through the gates: still admitted?, the agent (its seen list), 'receive' recorded? *)
Definition gate_state := (bool * agent * bool)%type.

(** One gate, as the source statement behaves: a gate that rejects returns from recv_bundle, so later gates
    have no effect; [GSeenRecord] adds the identity to the seen set whatever comes after it. *)
Definition gate_step (b : bundle) (st : gate_state) (g : gate) : gate_state :=
  let '(ok, a, rcv) := st in
  if negb ok then st
  else match g with
       | GCrc => (b_crc_ok b, a, rcv)
       | GOwnSource => (negb (b_src b =? a_node a), a, rcv)
       | GSeenTest => (negb (existsb (ident_eqb (ident_of b)) (a_seen a)), a, rcv)
       | GSeenRecord => (true, set_seen a (a_seen a ++ [ident_of b]), rcv)
       | GReceive => (true, a, true)
       end.

Definition run_gates (gates : list gate) (a : agent) (b : bundle) : gate_state :=
  fold_left (gate_step b) gates (true, a, false).

(** The gates of the source, in source order, let through exactly the bundles the model accepts, leave the agent
    untouched when they reject (in particular: a bundle failing the CRC gate is NOT recorded as seen), and
    record identity and 'receive' when they let it through. *)
Lemma gates_match_model (a : agent) (b : bundle) :
  let '(ok, a', rcv) := run_gates recv_gates a b in
  ok = accepted a b
  /\ rcv = accepted a b
  /\ a' = (if accepted a b then set_seen a (a_seen a ++ [ident_of b]) else a).
Proof.
  unfold run_gates, recv_gates, accepted. cbn [fold_left].
  unfold gate_step. cbn [negb].
  destruct (b_crc_ok b); cbn [negb andb]; [|repeat split].
  destruct (b_src b =? a_node a); cbn [negb andb]; [repeat split|].
  destruct (existsb (ident_eqb (ident_of b)) (a_seen a)); cbn [negb andb]; repeat split.
Qed.

Lemma gates_reject_untouched (a : agent) (b : bundle) :
  fst (fst (run_gates recv_gates a b)) = false -> snd (fst (run_gates recv_gates a b)) = a.
Proof.
  pose proof (gates_match_model a b) as H. destruct (run_gates recv_gates a b) as [[ok a'] rcv]. cbn [fst snd].
  destruct H as (H1 & _ & H3). intros E. rewrite H1 in E. rewrite E in H3. exact H3.
Qed.

Lemma gates_crc_first (a : agent) (b : bundle) :
  b_crc_ok b = false -> run_gates recv_gates a b = (false, a, false).
Proof.
  intros H. unfold run_gates, recv_gates. cbn [fold_left]. unfold gate_step. cbn [negb]. rewrite H. reflexivity.
Qed.

(** [recv_core]'s seen list is the one the gates leave behind. *)
Lemma gates_recv_core (matches : N -> eid -> bool) (a : agent) (b : bundle) :
  a_seen (fst (fst (recv_core matches a b))) = a_seen (snd (fst (run_gates recv_gates a b)))
  /\ (fst (fst (run_gates recv_gates a b)) = false -> recv_core matches a b = (a, [], None)).
Proof.
  pose proof (gates_match_model a b) as H. destruct (run_gates recv_gates a b) as [[ok a'] rcv]. cbn [fst snd].
  destruct H as (H1 & _ & H3). split.
  - rewrite recv_core_seen, H3. destruct (accepted a b); reflexivity.
  - intros E. apply recv_core_rejected. congruence.
Qed.

(** The source order itself. *)
Lemma gates_order : recv_gates = [GCrc; GOwnSource; GSeenTest; GSeenRecord; GReceive].
Proof. reflexivity. Qed.
