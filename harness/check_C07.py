''' C07 -- TCPCL message framing is independent of how TCP chunks the stream.

Proof obligations: coq/Props/C07.v (split invariance of the receive loop for
every octet stream and every handler; prefix untouched / complete acted on /
tail kept; codec round trip; item-level refutation + partial).

Ties to /repo (all on the current working tree, real scapy dissection):
 (a) codec       generated well-formed messages of every type: real scapy
                 encoder/decoder  vs  Model.TcpclMsg.encode_msg/parse_msg
                 (vm_compute)  vs  an independent RFC 9174 struct codec;
 (b) framing     the real Messenger.recv_raw fed every cut of short streams
                 (all 2^(n-1) cuts) and boundary-directed cuts of long streams
                 vs the model's rx_run (on the uncut stream and on a sample of
                 the cuts; C07_split_invariance covers the rest) and vs the
                 oracle built on the independent struct decoder;
 (c) malformed   unknown message types, garbage extension regions, the
                 max_list_count chain, truncations: model = implementation
                 (no C07 verdict; counted separately).
'''
import env  # noqa: F401  (first)
import glob
import json
import os
import struct
import sys
import time

from common import Check, CoqError, VERIF, coq_list, coq_nat, mkdata

import tcpcl_drive
import tcpcl.session
from scapy.packet import Raw
from tcpcl import contact, extend, formats, messages

KNOWN_EXT_SIG = 'C07 / ext-item list with >= 2 items dissected as one Raw blob'
KNOWN_IDLE_SIG = ('C07 / close-when-idle test reads the receive buffer: a terminating endpoint acts differently on '
                  'SESS_TERM+more octets in one read than in two reads')
MAGIC = b'dtn!'
XFER_BOUND = {1: 8, 255: 10}
SESS_BOUND = {255: 10}


# =====================================================================================
# Generated data (shared LCG with Lib/Bytes.mkdata)
# =====================================================================================
class Gen(object):
    ''' Octets produced by mkdata(seed, length) on both sides. '''
    _cache = {}

    def __init__(self, seed, length):
        self.seed = seed
        self.length = length

    def octets(self):
        key = (self.seed, self.length)
        if key not in Gen._cache:
            if len(Gen._cache) > 64:
                Gen._cache.clear()
            Gen._cache[key] = mkdata(self.seed, self.length)
        return Gen._cache[key]


def octets_of(val):
    return val.octets() if isinstance(val, Gen) else bytes(val)


def data_json(val):
    return ['gd', val.seed, val.length] if isinstance(val, Gen) else bytes(val).hex()


def data_unjson(val):
    return Gen(val[1], val[2]) if isinstance(val, list) else bytes.fromhex(val)


def coq_bytes(data):
    ''' An octet string as a Coq term of type [list N] (N_scope is open in the
    case files).  A plain list literal: [unhex] costs quadratic time in the
    length of the literal, a long chain of [++] quadratic elaboration time. '''
    data = bytes(data)
    if len(data) == 0:
        return '(@nil N)'
    return '[' + '; '.join(str(b) for b in data) + ']'


def c_data(val):
    if isinstance(val, Gen):
        return '(mkdata %d (N.to_nat %d))' % (val.seed, val.length)
    return coq_bytes(val)


# =====================================================================================
# Frames.  A frame is a tuple:
#   ('contact', magic, version, flags)
#   ('seg', flags, xid, ext_region, data)     ('ack', flags, xid, length)
#   ('refuse', reason, xid)  ('ka',)  ('term', flags, reason)  ('rej', msg_id, reason)
#   ('init', keepalive, seg_mru, xfer_mru, nodeid, ext_region)
# ext_region is an octet string; item lists are [(flags, type, value)].
# =====================================================================================

# ---- independent RFC 9174 codec (plain struct; sections 4.1, 4.7, 5.1, 5.2, 6.1) -----
class SpecUnknownType(Exception):
    pass


def spec_encode_items(items):
    out = b''
    for (flags, typ, val) in items:
        out += struct.pack('!BHH', flags, typ, len(val)) + val
    return out


def spec_decode_items(region, bound):
    ''' RFC 9174 section 4.8 / 5.2.5 TLV list filling the region exactly.  None = malformed. '''
    items = []
    pos = 0
    while pos < len(region):
        if len(region) - pos < 5:
            return None
        (flags, typ, length) = struct.unpack_from('!BHH', region, pos)
        pos += 5
        if len(region) - pos < length:
            return None
        if typ in bound and bound[typ] != length:
            return None
        items.append((flags, typ, region[pos:pos + length]))
        pos += length
    return items


def spec_encode(frame, bounds=None):
    ''' Encode one frame; if ``bounds`` is a list, the offsets of every field
    boundary inside the frame are appended to it. '''
    parts = []
    kind = frame[0]
    if kind == 'contact':
        parts = [frame[1], struct.pack('!B', frame[2]), struct.pack('!B', frame[3])]
    elif kind == 'seg':
        (_k, flags, xid, ext, data) = frame
        data = octets_of(data)
        parts = [b'\x01', struct.pack('!B', flags), struct.pack('!Q', xid)]
        if flags & 0x02:
            parts += [struct.pack('!I', len(ext)), ext]
        parts += [struct.pack('!Q', len(data)), data]
    elif kind == 'ack':
        parts = [b'\x02', struct.pack('!B', frame[1]), struct.pack('!Q', frame[2]), struct.pack('!Q', frame[3])]
    elif kind == 'refuse':
        parts = [b'\x03', struct.pack('!B', frame[1]), struct.pack('!Q', frame[2])]
    elif kind == 'ka':
        parts = [b'\x04']
    elif kind == 'term':
        parts = [b'\x05', struct.pack('!B', frame[1]), struct.pack('!B', frame[2])]
    elif kind == 'rej':
        parts = [b'\x06', struct.pack('!B', frame[1]), struct.pack('!B', frame[2])]
    elif kind == 'init':
        (_k, keepalive, smru, xmru, nodeid, ext) = frame
        parts = [b'\x07', struct.pack('!H', keepalive), struct.pack('!Q', smru), struct.pack('!Q', xmru),
                 struct.pack('!H', len(nodeid)), nodeid, struct.pack('!I', len(ext)), ext]
    else:
        raise ValueError(kind)
    out = b''.join(parts)
    if bounds is not None:
        pos = 0
        for part in parts[:-1]:
            pos += len(part)
            bounds.append(pos)
    return out


def spec_decode(buf, in_conn):
    ''' The frame at the front of ``buf``: (frame, consumed) or None if the
    octets so far do not hold a complete frame.  Unknown message type:
    SpecUnknownType (an RFC 9174 receiver cannot delimit it). '''
    if not in_conn:
        if len(buf) < 6:
            return None
        return (('contact', bytes(buf[:4]), buf[4], buf[5]), 6)
    if len(buf) < 1:
        return None
    mid = buf[0]

    def need(size):
        return len(buf) >= size

    if mid == 1:
        if not need(10):
            return None
        flags = buf[1]
        (xid,) = struct.unpack_from('!Q', buf, 2)
        pos = 10
        ext = b''
        if flags & 0x02:
            if not need(pos + 4):
                return None
            (esize,) = struct.unpack_from('!I', buf, pos)
            pos += 4
            if not need(pos + esize):
                return None
            ext = bytes(buf[pos:pos + esize])
            pos += esize
        if not need(pos + 8):
            return None
        (dlen,) = struct.unpack_from('!Q', buf, pos)
        pos += 8
        if not need(pos + dlen):
            return None
        return (('seg', flags, xid, ext, bytes(buf[pos:pos + dlen])), pos + dlen)
    if mid == 2:
        if not need(18):
            return None
        return (('ack', buf[1]) + struct.unpack_from('!QQ', buf, 2), 18)
    if mid == 3:
        if not need(10):
            return None
        return (('refuse', buf[1]) + struct.unpack_from('!Q', buf, 2), 10)
    if mid == 4:
        return (('ka',), 1)
    if mid == 5:
        if not need(3):
            return None
        return (('term', buf[1], buf[2]), 3)
    if mid == 6:
        if not need(3):
            return None
        return (('rej', buf[1], buf[2]), 3)
    if mid == 7:
        if not need(21):
            return None
        (keepalive, smru, xmru, nlen) = struct.unpack_from('!HQQH', buf, 1)
        pos = 21
        if not need(pos + nlen):
            return None
        nodeid = bytes(buf[pos:pos + nlen])
        pos += nlen
        if not need(pos + 4):
            return None
        (esize,) = struct.unpack_from('!I', buf, pos)
        pos += 4
        if not need(pos + esize):
            return None
        return (('init', keepalive, smru, xmru, nodeid, bytes(buf[pos:pos + esize])), pos + esize)
    raise SpecUnknownType(mid)


def spec_stream(buf, in_conn=False):
    ''' Greedy decode of a whole buffer: (frames, consumed per frame end offsets, stalled). '''
    frames = []
    ends = []
    pos = 0
    stalled = False
    while pos < len(buf):
        try:
            got = spec_decode(buf[pos:], in_conn)
        except SpecUnknownType:
            stalled = True
            break
        if got is None:
            break
        frames.append(got[0])
        pos += got[1]
        ends.append(pos)
        if got[0][0] == 'contact' and got[0][1] == MAGIC and got[0][2] == 4:
            in_conn = True
    return (frames, ends, stalled)


def render(frame):
    ''' The layout of Model.TcpclMsg.render_frame, as nested lists of ints. '''
    kind = frame[0]
    if kind == 'contact':
        return [[0], list(frame[1]), [frame[2]], [frame[3]]]
    if kind == 'seg':
        return [[1], [frame[1]], [frame[2]], list(octets_of(frame[4])), list(frame[3])]
    if kind == 'ack':
        return [[2], [frame[1]], [frame[2]], [frame[3]]]
    if kind == 'refuse':
        return [[3], [frame[1]], [frame[2]]]
    if kind == 'ka':
        return [[4]]
    if kind == 'term':
        return [[5], [frame[1]], [frame[2]]]
    if kind == 'rej':
        return [[6], [frame[1]], [frame[2]]]
    if kind == 'init':
        return [[7], [frame[1]], [frame[2]], [frame[3]], list(frame[4]), list(frame[5])]
    raise ValueError(kind)


BRIEF_MAX = 48


def brief(octs):
    ''' Same digest as the Coq prelude's [brief]: short strings verbatim. '''
    octs = list(octs)
    if len(octs) <= BRIEF_MAX:
        return octs
    acc = 0
    for val in octs:
        acc = (acc * 31 + val) % 4294967291
    return [len(octs), acc]


def brief_render(frame):
    return [brief(fld) for fld in render(frame)]


# ---- real scapy codec ------------------------------------------------------------------
def real_item(head_cls, item, bound_cls):
    (flags, typ, val) = item
    cls = bound_cls.get(typ)
    if cls is not None and cls[1] == len(val):
        return head_cls(flags=flags, type=typ) / cls[0](val)
    if val:
        return head_cls(flags=flags, type=typ) / Raw(val)
    return head_cls(flags=flags, type=typ)


def mk_total_length(val):
    return extend.TransferTotalLength(total_length=int.from_bytes(val, 'big'))


def mk_xfer_dummy(val):
    return extend.TransferPrivateDummy(largeval=int.from_bytes(val[:8], 'big'), smallval=int.from_bytes(val[8:], 'big'))


def mk_sess_dummy(val):
    return extend.SessionPrivateDummy(largeval=int.from_bytes(val[:8], 'big'), smallval=int.from_bytes(val[8:], 'big'))


XFER_CLS = {1: (mk_total_length, 8), 255: (mk_xfer_dummy, 10)}
SESS_CLS = {255: (mk_sess_dummy, 10)}


def real_build(frame, items):
    ''' The scapy packet the implementation would build for these field values
    (``items``: the extension item list the region was made from). '''
    kind = frame[0]
    if kind == 'contact':
        if frame[2] == 4:
            return contact.Head(magic=frame[1], version=4) / contact.ContactV4(flags=frame[3])
        return contact.Head(magic=frame[1], version=frame[2]) / Raw(bytes([frame[3]]))
    if kind == 'seg':
        kwargs = dict(flags=frame[1], transfer_id=frame[2], data=octets_of(frame[4]))
        if frame[1] & 0x02:
            kwargs['ext_items'] = [real_item(messages.TransferExtendHeader, it, XFER_CLS) for it in items]
        return messages.MessageHead() / messages.TransferSegment(**kwargs)
    if kind == 'ack':
        return messages.MessageHead() / messages.TransferAck(flags=frame[1], transfer_id=frame[2], length=frame[3])
    if kind == 'refuse':
        return messages.MessageHead() / messages.TransferRefuse(reason=frame[1], transfer_id=frame[2])
    if kind == 'ka':
        return messages.MessageHead() / messages.Keepalive()
    if kind == 'term':
        return messages.MessageHead() / messages.SessionTerm(flags=frame[1], reason=frame[2])
    if kind == 'rej':
        return messages.MessageHead() / messages.RejectMsg(rej_msg_id=frame[1], reason=frame[2])
    if kind == 'init':
        return messages.MessageHead() / messages.SessionInit(
            keepalive=frame[1], segment_mru=frame[2], transfer_mru=frame[3], nodeid_data=frame[4].decode('utf-8'),
            ext_items=[real_item(messages.SessionExtendHeader, it, SESS_CLS) for it in items])
    raise ValueError(kind)


def real_view(ext_items):
    ''' How the dissector reports the item list (layout of Model render_view). '''
    out = []
    for item in ext_items:
        if isinstance(item, Raw):
            out.append([[0], list(bytes(item))])
        else:
            out.append([[1], [int(item.flags)], [int(item.type)], [int(item.length)], list(bytes(item.payload))])
    return out


def real_fields(pkt):
    ''' A dissected packet as (frame tuple, item view). '''
    if isinstance(pkt, contact.Head):
        return (('contact', bytes(pkt.magic), int(pkt.version), bytes(pkt.payload)[0]), None)
    mid = int(pkt.msg_id)
    pay = pkt.payload
    if mid == 1:
        items = list(pay.ext_items or []) if (int(pay.flags) & 0x02) else []
        region = b''.join(bytes(it) for it in items)
        return (('seg', int(pay.flags), int(pay.transfer_id), region, bytes(pay.getfieldval('data'))), real_view(items))
    if mid == 2:
        return (('ack', int(pay.flags), int(pay.transfer_id), int(pay.length)), None)
    if mid == 3:
        return (('refuse', int(pay.reason), int(pay.transfer_id)), None)
    if mid == 4:
        return (('ka',), None)
    if mid == 5:
        return (('term', int(pay.flags), int(pay.reason)), None)
    if mid == 6:
        return (('rej', int(pay.rej_msg_id), int(pay.reason)), None)
    if mid == 7:
        items = list(pay.ext_items or [])
        region = b''.join(bytes(it) for it in items)
        return (('init', int(pay.keepalive), int(pay.segment_mru), int(pay.transfer_mru),
                 bytes(pay.getfieldval('nodeid_data')), region), real_view(items))
    return (('unknown', mid), None)


def real_probe(buf):
    ''' What recv_raw's probe does with a buffer in the message phase. '''
    try:
        pkt = messages.MessageHead(buf)
        enc = bytes(pkt)
    except formats.VerifyError:
        return None
    return (pkt, enc)


# ---- Coq terms ---------------------------------------------------------------------------
def c_frame_msg(frame):
    kind = frame[0]
    if kind == 'seg':
        return '(MXferSeg %d %d %s %s)' % (frame[1], frame[2], coq_bytes(frame[3]), c_data(frame[4]))
    if kind == 'ack':
        return '(MXferAck %d %d %d)' % frame[1:]
    if kind == 'refuse':
        return '(MXferRefuse %d %d)' % frame[1:]
    if kind == 'ka':
        return 'MKeepalive'
    if kind == 'term':
        return '(MSessTerm %d %d)' % frame[1:]
    if kind == 'rej':
        return '(MReject %d %d)' % frame[1:]
    if kind == 'init':
        return '(MSessInit %d %d %d %s %s)' % (frame[1], frame[2], frame[3], coq_bytes(frame[4]), coq_bytes(frame[5]))
    raise ValueError(kind)


def c_items(items):
    return coq_list(['(mkExt %d %d %s)' % (fl, ty, coq_bytes(val)) for (fl, ty, val) in items], 'extitem')


def c_len(num):
    ''' A nat term (large values are not written as nat literals). '''
    return coq_nat(num) if num <= 1000 else '(N.to_nat %d)' % num


def c_lens(lens):
    return coq_list([c_len(n) for n in lens], 'nat')


def c_parts(parts):
    ''' A stream given as a list of octet strings / Gen objects. '''
    terms = [c_data(part) for part in parts if isinstance(part, Gen) or len(part)]
    if not terms:
        return '(@nil N)'
    return '(' + ' ++ '.join(terms) + ')'


PRELUDE = r'''
Definition o2l {A} (o : option A) : list A := match o with Some x => [x] | None => [] end.
Definition cksum (b : bytes) : N := fold_left (fun acc x => (acc * 31 + x) mod 4294967291) b 0.
Definition brief (b : bytes) : bytes := if (List.length b <=? 48)%nat then b else [N.of_nat (List.length b); cksum b].
Definition lb_eqb (a b : list bytes) : bool :=
  (List.length a =? List.length b)%nat && forallb (fun p => bytes_eqb (fst p) (snd p)) (combine a b).
(* codec, everything printed: (wf, (encoding, parse of encoding ++ tail)) *)
Definition codec_small (c : msg * bytes) :=
  let (m, tail) := c in
  (wf_msgb m, (encode_msg m, o2l (render_parse (encode_msg m ++ tail)))).
(* codec, large data: compared inside Coq against the implementation's octets *)
Definition codec_big (c : msg * (bytes * bytes)) :=
  let '(m, (expected, tail)) := c in
  (wf_msgb m, (bytes_eqb (encode_msg m) expected,
     match parse_msg (expected ++ tail) with
     | Some (m', r) => lb_eqb (render_msg m') (render_msg m) && bytes_eqb r tail
     | None => false end)).
(* probe of arbitrary octets in the message phase *)
Definition probe_msg (b : bytes) := o2l (match parse_msg b with Some (m, r) => Some (map brief (render_msg m), List.length r) | None => None end).
(* item level: (RFC reading, dissector's view) of a region *)
Definition exts_xfer (r : bytes) := (o2l (render_spec_exts xfer_ext_len r), render_view (scapy_view xfer_ext_len r)).
Definition exts_sess (r : bytes) := (o2l (render_spec_exts sess_ext_len r), render_view (scapy_view sess_ext_len r)).
Definition enc_items (l : list extitem) := encode_exts l.
(* framing: trace after each read, frames acted on, octets kept *)
Definition rx_brief (c : bytes * list nat) :=
  let (stream, lens) := c in
  let '(t, (fs, tl)) := rx_run_cut stream lens in (t, (map (map brief) fs, brief tl)).
'''


# =====================================================================================
# Implementation side of the framing run
# =====================================================================================
class RxObs(object):
    ''' One run of the real Messenger.recv_raw over a list of reads. '''

    def __init__(self, chunks, mode='wrap'):
        sysm = tcpcl_drive.System()
        hdl = sysm.ep['B'].h
        self.frames = []    # (octets of the packet, frame tuple, item view)
        self.trace = []     # after each read: (frames so far, buffer occupancy, idle indication, tx pending)
        self.raised = None  # (read index, exception class name)
        orig = hdl.recv_message
        frames = self.frames

        def recorder(pkt):
            (flds, view) = real_fields(pkt)
            frames.append((bytes(pkt), flds, view))
            # the contact header always goes to the real handler (it owns the
            # phase flag); messages too in 'real' mode
            if mode == 'real' or isinstance(pkt, contact.Head):
                return orig(pkt)
            return None

        hdl.recv_message = recorder
        for (idx, chunk) in enumerate(chunks):
            try:
                hdl.recv_raw(chunk)
            except Exception as err:  # escapes the receive callback
                self.raised = (idx, err.__class__.__name__)
                break
            self.trace.append((len(self.frames), hdl.recv_buffer_used(),
                               bool(tcpcl.session.Messenger.is_sess_idle(hdl)), hdl.send_buffer_used()))
        self.occupancy = hdl.recv_buffer_used()
        self.tail = getattr(hdl, '_Messenger__rx_buf', None)
        if self.tail is not None:
            self.tail = bytes(self.tail)


def obs_export(obs):
    return (obs.frames, obs.trace, obs.raised, obs.occupancy, obs.tail)


def obs_load(data):
    obs = RxObs.__new__(RxObs)
    (obs.frames, obs.trace, obs.raised, obs.occupancy, obs.tail) = data
    return obs


def short_worker(stream):
    ''' Every cut of one short stream through the real recv_raw (runs in a
    worker process; observations only, verdicts are taken by the parent). '''
    out = []
    size = len(stream)
    for mask in range(1 << (size - 1)):
        lens = cut_lens(mask, size)
        out.append(obs_export(RxObs(split_stream(stream, lens), 'wrap')))
    return out


def cut_lens(mask, size):
    ''' Read sizes for the cut whose boundary set is the bitmask (bit i = cut after octet i+1). '''
    lens = []
    last = 0
    for pos in range(1, size):
        if mask & (1 << (pos - 1)):
            lens.append(pos - last)
            last = pos
    lens.append(size - last)
    return lens


def lens_from_points(points, size):
    pts = sorted(set(p for p in points if 0 < p < size))
    lens = []
    last = 0
    for pos in pts:
        lens.append(pos - last)
        last = pos
    lens.append(size - last)
    return lens


def split_stream(stream, lens):
    out = []
    pos = 0
    for size in lens:
        out.append(stream[pos:pos + size])
        pos += size
    if pos < len(stream):
        out.append(stream[pos:])
    return out


def oracle_framing(stream, lens, obs):
    ''' The property, stated over the observations with the independent decoder:
    after every read the frames acted on are exactly those whose final octet
    has arrived, with the fields the independent decoder finds, and every
    octet after them is kept.  Returns None or (signature suffix, text). '''
    (frames, ends, stalled) = spec_stream(stream)
    if obs.raised is not None:
        return ('exception escaped recv_raw: %s' % obs.raised[1],
                'read #%d raised %s' % (obs.raised[0], obs.raised[1]))
    pos = 0
    for (idx, size) in enumerate(lens):
        pos += size
        due = sum(1 for end in ends if end <= pos)
        done = ends[due - 1] if due else 0
        (count, used, idle, txpend) = obs.trace[idx]
        nxt = frames[due][0] if due < len(frames) else 'none'
        if count > due:
            return ('frame acted on before its final octet arrived (%s)' % KIND_NAMES_OF(frames, due),
                    'after read #%d (%d octets in) %d frame(s) acted on, only %d complete' % (idx, pos, count, due))
        if count < due and not (stalled and count == len(frames)):
            return ('complete frame not acted on in the read that delivers its final octet (%s)' % KIND_NAMES_OF(frames, count),
                    'after read #%d (%d octets in) %d frame(s) acted on, %d complete' % (idx, pos, count, due))
        if used != pos - done:
            return ('kept octets wrong (next %s)' % nxt,
                    'after read #%d buffer holds %d octets, expected %d' % (idx, used, pos - done))
        if idle != (pos - done == 0 and txpend == 0):
            return ('idle indication wrong', 'after read #%d is_sess_idle=%s with %d octets kept, %d to send' % (idx, idle, used, txpend))
    for (idx, (octs, flds, _view)) in enumerate(obs.frames):
        beg = ends[idx - 1] if idx else 0
        if octs != stream[beg:ends[idx]]:
            return ('frame octets differ from the stream (%s)' % KIND_NAMES_OF(frames, idx),
                    'frame #%d is %s, stream has %s' % (idx, octs.hex()[:80], stream[beg:ends[idx]].hex()[:80]))
        if flds != frames[idx]:
            return ('frame fields differ from the independent decoder (%s)' % KIND_NAMES_OF(frames, idx),
                    'frame #%d fields %r vs %r' % (idx, str(flds)[:200], str(frames[idx])[:200]))
    if obs.tail is not None and obs.tail != stream[(ends[len(obs.frames) - 1] if obs.frames else 0):]:
        return ('kept octets are not the rest of the stream', 'tail %s' % obs.tail.hex()[:80])
    return None


def KIND_NAMES_OF(frames, idx):
    if idx >= len(frames):
        return 'none'
    kind = frames[idx][0]
    return {'contact': 'contact header', 'seg': 'XFER_SEGMENT', 'ack': 'XFER_ACK', 'refuse': 'XFER_REFUSE', 'ka': 'KEEPALIVE',
            'term': 'SESS_TERM', 'rej': 'REJECT', 'init': 'SESS_INIT'}[kind]


def canon_impl(obs):
    ''' The observations in the shape rx_brief prints. '''
    trace = [(cnt, used) for (cnt, used, _idle, _tx) in obs.trace]
    frames = [brief_render(flds) for (_o, flds, _v) in obs.frames]
    return (trace, frames)


def canon_model(val):
    (trace, (frames, tail)) = val
    return ([tuple(ent) for ent in trace], [[list(fld) for fld in frm] for frm in frames], list(tail))


# =====================================================================================
# Generators
# =====================================================================================
B8 = [0, 1, 2, 3, 0x80, 0xFF]
B16 = [0, 1, 255, 256, 65535]
B64 = [0, 1, 255, 256, 65535, 65536, 2 ** 32 - 1, 2 ** 32, 2 ** 63, 2 ** 64 - 1]
NODEIDS = [b'', b'dtn://a/', b'ipn:1.0', 'dtn://nøde/'.encode('utf-8'), b'dtn://' + b'x' * 249, b'dtn://' + b'y' * 250]


def gen_items(rng, bound, count=None):
    if count is None:
        count = rng.choice([0, 0, 1, 1, 1, 2, 2, 3])
    items = []
    for _ in range(count):
        typ = rng.choice(sorted(bound) + [2, 0x8000, 0xFFFE, rng.randrange(3, 255)])
        if typ in bound:
            val = bytes(rng.randrange(256) for _ in range(bound[typ]))
        else:
            val = bytes(rng.randrange(256) for _ in range(rng.choice([0, 1, 5, 24, 255])))
        items.append((rng.choice([0, 1, 0x80, 0xFF]), typ, val))
    return items


def gen_data(rng, big):
    sizes = [0, 0, 1, 2, 17, 255, 256, 1000]
    if big:
        sizes = [4096, 4099, 6000]
    size = rng.choice(sizes)
    if size <= 17:
        return bytes(rng.randrange(256) for _ in range(size))
    return Gen(rng.randrange(1, 2 ** 31), size)


def gen_frame(rng, kind=None, big=False, nitems=None):
    ''' (frame, items) with field values at the width boundaries. '''
    kind = kind or rng.choice(['seg', 'seg', 'ack', 'refuse', 'ka', 'term', 'rej', 'init'])
    if kind == 'seg':
        flags = rng.choice([0, 1, 2, 3, 3, 2, 0x82, 0xFD, 0xFF])
        items = gen_items(rng, XFER_BOUND, nitems) if flags & 0x02 else []
        return (('seg', flags, rng.choice(B64 + [rng.randrange(2 ** 64)]), spec_encode_items(items), gen_data(rng, big)), items)
    if kind == 'ack':
        return (('ack', rng.choice(B8), rng.choice(B64), rng.choice(B64 + [rng.randrange(2 ** 64)])), [])
    if kind == 'refuse':
        return (('refuse', rng.choice(B8 + [4, 5]), rng.choice(B64)), [])
    if kind == 'ka':
        return (('ka',), [])
    if kind == 'term':
        return (('term', rng.choice(B8), rng.choice(B8 + [4, 5])), [])
    if kind == 'rej':
        return (('rej', rng.choice(B8 + [7, 8]), rng.choice(B8)), [])
    if kind == 'init':
        items = gen_items(rng, SESS_BOUND, nitems)
        return (('init', rng.choice(B16), rng.choice(B64), rng.choice(B64), rng.choice(NODEIDS), spec_encode_items(items)), items)
    raise ValueError(kind)


GOOD_CONTACT = ('contact', MAGIC, 4, 0)


def short_streams(chk):
    ''' Streams of at most ``limit`` octets built from the contact header and
    short messages (complete or cut short). '''
    limit = 12 if chk.quick() else 14
    rng = chk.rng
    pool = [('ka',), ('term', 0, 3), ('term', 1, 0), ('rej', 4, 1), ('rej', 9, 3), ('ka',), ('refuse', 2, 7)]
    streams = []
    seen = set()

    def add(frames, trunc=0, tag='short'):
        octs = b''.join(spec_encode(f) for f in frames)
        if trunc:
            octs = octs[:-trunc]
        if len(octs) > limit or len(octs) < 2 or octs in seen:
            return
        seen.add(octs)
        streams.append((tag, octs))

    add([GOOD_CONTACT])
    add([('contact', MAGIC, 4, 1), ('ka',)])
    add([GOOD_CONTACT, ('ka',), ('ka',), ('ka',)])
    add([GOOD_CONTACT, ('term', 0, 3), ('ka',)])
    add([GOOD_CONTACT, ('ka',), ('term', 1, 5), ('ka',)])
    add([GOOD_CONTACT, ('rej', 4, 1), ('term', 0, 0)])
    add([GOOD_CONTACT, ('term', 0, 3), ('rej', 5, 2)])
    add([GOOD_CONTACT, ('ka',), ('rej', 7, 2), ('ka',), ('ka',)])
    add([GOOD_CONTACT, ('term', 0, 3), ('term', 1, 3)], trunc=1)
    add([GOOD_CONTACT, ('rej', 4, 1), ('ka',), ('term', 0, 0)], trunc=2)
    add([GOOD_CONTACT, ('refuse', 2, 7)], trunc=4)
    add([GOOD_CONTACT, ('ka',), ('ack', 1, 1, 1)], trunc=13)
    if limit >= 14:
        add([GOOD_CONTACT, ('ka',), ('ka',), ('term', 0, 3), ('rej', 4, 1)])
        add([GOOD_CONTACT, ('ka',), ('seg', 0, 1, b'', b'')], trunc=12)
    want = 16 if chk.quick() else 36
    tries = 0
    while len(streams) < want and tries < 2000:
        tries += 1
        frames = [GOOD_CONTACT if rng.random() < 0.85 else ('contact', MAGIC, 4, rng.choice([1, 0xFF]))]
        for _ in range(rng.randrange(1, 5)):
            frames.append(rng.choice(pool))
        add(frames, trunc=rng.choice([0, 0, 0, 1, 2]), tag='short-random')
    return streams


def long_streams(chk):
    ''' (tag, frames, items per frame): every message type, boundary field values. '''
    rng = chk.rng
    out = []
    count = 14 if chk.quick() else 36
    for idx in range(count):
        frames = [(GOOD_CONTACT, [])]
        kinds = ['init', 'seg', 'seg', 'ack', 'refuse', 'ka', 'rej', 'seg', 'term']
        if idx % 3 == 1:
            rng.shuffle(kinds)
        if idx % 3 == 2:
            kinds = [rng.choice(kinds) for _ in range(rng.randrange(3, 9))]
        for kind in kinds:
            frames.append(gen_frame(rng, kind))
        out.append(('long', frames))
    nbig = 1 if chk.quick() else 4
    for _ in range(nbig):
        frames = [(GOOD_CONTACT, []), gen_frame(rng, 'init'), gen_frame(rng, 'seg', big=True), (('ka',), []),
                  gen_frame(rng, 'seg'), (('term', 0, 3), [])]
        out.append(('long-bigdata', frames))
    return out


def directed_cuts(chk, frames, size_limit_all=400, light=False):
    ''' Boundary-directed cuts of a long stream: list of (tag, lens). '''
    rng = chk.rng
    bounds = []
    msg_ends = []
    pos = 0
    for (frame, _items) in frames:
        inner = []
        octs = spec_encode(frame, inner)
        bounds += [pos + off for off in inner]
        pos += len(octs)
        msg_ends.append(pos)
    size = pos
    cuts = [('uncut', [size])]
    cuts.append(('message-boundaries', lens_from_points(msg_ends, size)))
    cuts.append(('message-boundaries-1', lens_from_points([p - 1 for p in msg_ends], size)))
    cuts.append(('message-boundaries+1', lens_from_points([p + 1 for p in msg_ends], size)))
    cuts.append(('field-boundaries', lens_from_points(bounds + msg_ends, size)))
    cuts.append(('field-boundaries-1', lens_from_points([p - 1 for p in bounds + msg_ends], size)))
    cuts.append(('field-boundaries+1', lens_from_points([p + 1 for p in bounds + msg_ends], size)))
    allb = sorted(set(bounds + msg_ends))
    for point in ([] if light else allb[:: max(1, len(allb) // (6 if chk.quick() else 12))]):
        cuts.append(('two-reads@boundary', lens_from_points([point], size)))
        cuts.append(('two-reads@boundary-1', lens_from_points([point - 1], size)))
        cuts.append(('two-reads@boundary+1', lens_from_points([point + 1], size)))
    if size <= size_limit_all:
        cuts.append(('one-octet-reads', [1] * size))
    else:
        # one-octet reads across every boundary, big reads in between
        pts = []
        for point in allb:
            pts += [point - 1, point, point + 1] if light else [point - 2, point - 1, point, point + 1, point + 2]
        cuts.append(('one-octet-reads-around-boundaries', lens_from_points(pts, size)))
    for _ in range(2 if chk.quick() else 6):
        npts = rng.randrange(1, 12)
        cuts.append(('random', lens_from_points([rng.randrange(1, size) for _ in range(npts)], size)))
    return (size, cuts)


# =====================================================================================
# The run
# =====================================================================================
class Runner(object):
    def __init__(self, chk):
        self.chk = chk
        self.mismatch = {}
        self.failed = {}   # signature -> number of failing inputs (the first one is written as the replay)

    def fail(self, signature, what, replay):
        """ One replay file per class of failing input. """
        self.failed[signature] = self.failed.get(signature, 0) + 1
        if self.failed[signature] > 1:
            return self.chk.known_match(signature) is None
        return self.chk.fail(signature, what, replay)

    def note(self, suite, detail):
        self.mismatch.setdefault(suite, []).append(detail)

    # ---- codec, implementation side + oracle (one message) ---------------------------
    def codec_impl(self, frame, items, tail):
        ''' Returns dict(enc, dec (frame tuple, consumed), view) from the real code. '''
        out = dict(exc=None)
        try:
            pkt = real_build(frame, items)
            out['enc'] = bytes(pkt)
            probe = real_probe(spec_encode(frame) + tail)
            if probe is None:
                out['dec'] = None
            else:
                (flds, view) = real_fields(probe[0])
                out['dec'] = (flds, len(probe[1]))
                out['view'] = view
        except Exception as err:
            out['exc'] = '%s: %s' % (err.__class__.__name__, err)
        return out

    def codec_oracle(self, frame, items, tail, impl, replay):
        ''' Every message the implementation encodes is decoded to the same
        fields by the independent decoder, and vice versa. '''
        name = KIND_NAMES_OF([frame], 0)
        canon = tuple(octets_of(fld) if isinstance(fld, Gen) else fld for fld in frame)
        if impl['exc']:
            return self.fail('C07 / codec / exception in scapy codec (%s)' % name, impl['exc'], replay)
        got = spec_decode(impl['enc'] + tail, True)
        if got is None or got[0] != canon or got[1] != len(impl['enc']):
            return self.fail('C07 / codec / implementation encoding not decoded to the same fields by the RFC 9174 decoder (%s)' % name,
                                 'encoded %s, independent decoder finds %s' % (impl['enc'].hex()[:120], str(got)[:200]), replay)
        if impl['dec'] is None or impl['dec'][0] != canon or impl['dec'][1] != len(spec_encode(frame)):
            return self.fail('C07 / codec / RFC 9174 encoding not decoded to the same fields by the implementation (%s)' % name,
                                 'independent encoding %s, implementation finds %s' % (spec_encode(frame).hex()[:120], str(impl['dec'])[:200]), replay)
        if frame[0] in ('seg', 'init'):
            bound = XFER_BOUND if frame[0] == 'seg' else SESS_BOUND
            region = frame[3] if frame[0] == 'seg' else frame[5]
            spec_items = spec_decode_items(region, bound)
            if spec_items != list(items):
                return self.fail('C07 / codec / independent item decoder disagrees with the generator', str(spec_items)[:200], replay)
            want = [[[1], [fl], [ty], [len(val)], list(val)] for (fl, ty, val) in items]
            if impl.get('view') != want:
                if len(items) >= 2 and impl.get('view') == [[[0], list(region)]]:
                    return self.fail(KNOWN_EXT_SIG, '%s with %d extension items: implementation reports ext_items=[Raw(%d octets)]' % (
                        name, len(items), len(region)), replay)
                return self.fail('C07 / codec / extension items not decoded to the same fields by the implementation (%s, %d items)' % (name, len(items)),
                                     'items %s, implementation reports %s' % (str(items)[:160], str(impl.get('view'))[:200]), replay)
        return False

    # ---- framing, one (stream, cut) --------------------------------------------------
    def framing_case(self, stream, lens, mode, replay, verdict=True, obs=None):
        if obs is None:
            obs = RxObs(split_stream(stream, lens), mode)
        bad = oracle_framing(stream, lens, obs) if verdict else None
        if bad is not None:
            self.fail('C07 / framing / ' + bad[0], 'stream %s cut %s: %s' % (stream.hex()[:100], lens[:24], bad[1]), replay)
        return (obs, bad)


def item_bound(frame):
    return XFER_BOUND if frame[0] == 'seg' else SESS_BOUND


class ModelJobs(object):
    """ All model evaluations of a run go into ONE sharded coq_eval call (each
    coqc process has a fixed start-up cost): suites register closed terms,
    ``start`` launches the evaluation in a background thread while the
    implementation side runs in this process, ``get`` waits for the values. """

    def __init__(self, chk):
        from concurrent.futures import ThreadPoolExecutor
        self.chk = chk
        self.pool = ThreadPoolExecutor(max_workers=2)
        self.terms = []
        self.future = None

    def add(self, term):
        self.terms.append(term)
        return len(self.terms) - 1

    def add_cuts(self, stream_term, cuts):
        """ One case: the stream is built once, every cut of ``cuts`` is run on it. """
        return self.add('(let s : bytes := %s in map (fun lens => rx_brief (s, lens)) %s)' % (
            stream_term, coq_list([c_lens(lens) for lens in cuts], '(list nat)')))

    def start(self, nshards=16):
        terms = list(self.terms)
        chunk = max(1, -(-len(terms) // nshards))
        nshards = max(1, -(-len(terms) // chunk))
        # spread neighbouring (similarly expensive) cases over the shards
        order = sorted(range(len(terms)), key=lambda idx: (idx % nshards, idx))

        def work():
            res = self.chk.coq_eval('all', ['Model.TcpclMsg'], [terms[idx] for idx in order], '(fun x => x)', chunk, 1500, PRELUDE)
            out = [None] * len(terms)
            for (idx, val) in zip(order, res):
                out[idx] = val
            return out

        self.future = self.pool.submit(work)

    def get(self, handle):
        return self.future.result()[handle]


def frame_json(frame):
    return [frame[0]] + [data_json(f) if isinstance(f, (bytes, Gen)) else f for f in frame[1:]]


def run_codec(chk, run, jobs, corpus, sizes):
    rng = chk.rng
    cases = []   # (frame, items, tail)
    for ent in corpus:
        cases.append(ent)
    per_kind = 30 if chk.quick() else 120
    for kind in ['seg', 'ack', 'refuse', 'term', 'rej', 'init']:
        for idx in range(per_kind if kind in ('seg', 'init') else max(6, per_kind // 3)):
            (frame, items) = gen_frame(rng, kind, nitems=(idx % 4 if kind in ('seg', 'init') and idx < 12 else None))
            tail = rng.choice([b'', b'', b'\x04', b'\x05\x00', bytes([rng.randrange(256)])])
            cases.append((frame, items, tail))
    cases.append((('ka',), [], b''))
    cases.append((('ka',), [], b'\x04'))
    cases.append((('ka',), [], b'\x00\x01'))
    for _ in range(3 if chk.quick() else 12):
        (frame, items) = gen_frame(rng, 'seg', big=True)
        cases.append((frame, items, b'\x04'))
    # zero-length data, START with and without items, explicit
    cases.append((('seg', 3, 0, b'', b''), [], b''))
    cases.append((('seg', 0, 5, b'', b''), [], b'\x04'))
    tl_item = (0, 1, struct.pack('!Q', 0))
    cases.append((('seg', 2, 1, spec_encode_items([tl_item]), b''), [tl_item], b''))

    small = []
    big = []
    for (pos, (frame, items, tail)) in enumerate(cases):
        is_big = frame[0] == 'seg' and isinstance(frame[4], Gen) and frame[4].length > 300
        if is_big:
            enc = spec_encode(frame)
            head = enc[:len(enc) - frame[4].length]
            big.append((pos, '(%s, ((%s ++ %s), %s))' % (c_frame_msg(frame), coq_bytes(head), c_data(frame[4]), coq_bytes(tail))))
        else:
            small.append((pos, '(%s, %s)' % (c_frame_msg(frame), coq_bytes(tail))))
    item_cases = [(pos, frame, items) for (pos, (frame, items, _t)) in enumerate(cases) if frame[0] in ('seg', 'init')]
    h_small = [(pos, jobs.add('(codec_small %s)' % term)) for (pos, term) in small]
    h_big = [(pos, jobs.add('(codec_big %s)' % term)) for (pos, term) in big]
    h_items = [(pos, jobs.add('(exts_xfer %s)' % coq_bytes(f[3]) if f[0] == 'seg' else '(exts_sess %s)' % coq_bytes(f[5])),
                jobs.add('(enc_items %s)' % c_items(i))) for (pos, f, i) in item_cases]
    yield
    impls = [run.codec_impl(frame, items, tail) for (frame, items, tail) in cases]
    for (pos, (frame, items, tail)) in enumerate(cases):
        impl = impls[pos]
        name = KIND_NAMES_OF([frame], 0)
        chk.case(('codec', spec_encode(frame)[:64], len(spec_encode(frame)), tail), nontrivial=(frame[0] != 'ka'),
                 sample=dict(suite='codec', frame=frame_json(frame), items=[[fl, ty, val.hex()] for (fl, ty, val) in items],
                             encoding=(impl.get('enc') or b'').hex()[:96]) if pos % 97 == 0 else None)
        chk.count('codec_msg_type', name)
        if frame[0] in ('seg', 'init'):
            chk.count('codec_ext_items', len(items))
        if frame[0] == 'seg':
            size = len(octets_of(frame[4]))
            chk.count('codec_data_octets', '0' if size == 0 else ('1-255' if size < 256 else ('256-4095' if size < 4096 else '>=4096')))
        replay = dict(suite='codec', frame=frame_json(frame), items=[[fl, ty, val.hex()] for (fl, ty, val) in items], tail=tail.hex())
        run.codec_oracle(frame, items, tail, impl, replay)
    sizes['codec'] = len(cases)
    yield
    model = {}
    for (pos, hdl) in h_small:
        model[pos] = ('small', jobs.get(hdl))
    for (pos, hdl) in h_big:
        model[pos] = ('big', jobs.get(hdl))
    model_items = {}
    for (pos, h_view, h_enc) in h_items:
        model_items[pos] = (jobs.get(h_view), jobs.get(h_enc))
    for (pos, (frame, items, tail)) in enumerate(cases):
        impl = impls[pos]
        name = KIND_NAMES_OF([frame], 0)
        (form, val) = model[pos]
        if impl['exc']:
            run.note('codec', '%s: implementation raised %s' % (name, impl['exc']))
            continue
        if form == 'small':
            (wfb, (enc, parsed)) = val
            want_dec = [] if impl['dec'] is None else [(render(impl['dec'][0]), list((spec_encode(frame) + tail)[impl['dec'][1]:]))]
            got_dec = [([list(f) for f in p[0]], list(p[1])) for p in parsed]
            if not wfb or bytes(enc) != impl['enc'] or got_dec != want_dec:
                run.note('codec', '%s %s: model wf=%s enc=%s dec=%s / impl enc=%s dec=%s' % (
                    name, str(frame)[:80], wfb, bytes(enc).hex()[:60], str(got_dec)[:80], impl['enc'].hex()[:60], str(want_dec)[:80]))
        else:
            (wfb, (enc_ok, dec_ok)) = val
            impl_ok = (impl['enc'] == spec_encode(frame) and impl['dec'] is not None
                       and impl['dec'][0] == tuple(octets_of(f) if isinstance(f, Gen) else f for f in frame))
            if not (wfb and enc_ok and dec_ok and impl_ok):
                run.note('codec', '%s (large data %d): model wf=%s enc_ok=%s dec_ok=%s impl_ok=%s' % (
                    name, frame[4].length, wfb, enc_ok, dec_ok, impl_ok))
        if pos in model_items:
            ((spec_l, view), enc_items) = model_items[pos]
            region = frame[3] if frame[0] == 'seg' else frame[5]
            want_spec = [[[[fl], [ty], list(v)] for (fl, ty, v) in items]]
            got_spec = [[[list(x) for x in it] for it in lst] for lst in spec_l]
            got_view = [[list(x) for x in ent] for ent in view]
            if bytes(enc_items) != region or got_spec != want_spec or got_view != impl.get('view'):
                run.note('codec', '%s items %s: model encode_exts=%s spec=%s view=%s / impl view=%s' % (
                    name, str(items)[:80], bytes(enc_items).hex()[:40], str(got_spec)[:80], str(got_view)[:80], str(impl.get('view'))[:80]))
    chk.obligation('correspondence:codec', not run.mismatch.get('codec'), '; '.join(run.mismatch.get('codec', [])[:3]))


def _cum(lens):
    out = []
    pos = 0
    for size in lens:
        pos += size
        out.append(pos)
    return out


def run_framing_short(chk, run, jobs, sizes, pool):
    """ Every cut of every short stream on the implementation; the model on the
    uncut stream and on a sample of the cuts. """
    rng = chk.rng
    streams = short_streams(chk)
    model_cases = []   # (stream index, mask, lens)
    handles = []
    budget = 600 if chk.quick() else 3600
    per_stream = max(8, budget // max(1, len(streams)))
    for (sidx, (tag, stream)) in enumerate(streams):
        size = len(stream)
        total = 1 << (size - 1)
        sampled = set([0, total - 1])
        while len(sampled) < min(per_stream, total):
            sampled.add(rng.randrange(total))
        mine = [(sidx, mask, cut_lens(mask, size)) for mask in sorted(sampled)]
        model_cases += mine
        handles.append(jobs.add_cuts(coq_bytes(stream), [lens for (_s, _m, lens) in mine]))
    pending = pool.map_async(short_worker, [stream for (_t, stream) in streams], chunksize=1)
    yield
    yield
    all_obs = {}
    for ((sidx, (tag, stream)), observed) in zip(enumerate(streams), pending.get()):
        size = len(stream)
        (_f, ends, _s) = spec_stream(stream)
        for mask in range(1 << (size - 1)):
            lens = cut_lens(mask, size)
            replay = dict(suite='framing', stream=stream.hex(), lens=lens, mode='wrap')
            (obs, _bad) = run.framing_case(stream, lens, 'wrap', replay, obs=obs_load(observed[mask]))
            splits = any((pos not in ends) for pos in _cum(lens)[:-1])
            chk.case(('cut', stream, mask), nontrivial=splits,
                     sample=dict(suite='framing', stream=stream.hex(), reads=lens, frames_acted_on=[o.hex() for (o, _f2, _v) in obs.frames],
                                 kept=obs.occupancy) if (mask == 0b1011 and sidx < 3) else None)
            all_obs[(sidx, mask)] = canon_impl(obs) + (obs.tail, obs.raised)
        chk.count('short_stream_octets', size)
        chk.count('short_stream_kind', tag)
    chk.coverage['short_streams'] = len(streams)
    chk.coverage['short_cuts_all'] = len(all_obs)
    sizes['framing_short_all_cuts'] = len(all_obs)
    sizes['framing_short_model_evaluated'] = len(model_cases)
    uncut = {}
    values = []
    for hdl in handles:
        values += jobs.get(hdl)
    for ((sidx, mask, lens), val) in zip(model_cases, values):
        (mtrace, mframes, mtail) = canon_model(val)
        (itrace, iframes, itail, raised) = all_obs[(sidx, mask)]
        if mask == 0:
            uncut[sidx] = (mframes, mtail)
        if raised or mtrace != itrace or mframes != iframes or (itail is not None and brief(itail) != mtail):
            run.note('framing-short', 'stream %s cut %s: model %s %s / impl %s %s raised=%s' % (
                streams[sidx][1].hex(), lens, mtrace, str(mframes)[:80], itrace, str(iframes)[:80], raised))
    # every cut against the model's answer for the uncut stream (C07_split_invariance)
    for ((sidx, mask), (itrace, iframes, itail, raised)) in all_obs.items():
        (mframes, mtail) = uncut[sidx]
        if raised or iframes != mframes or (itail is not None and brief(itail) != mtail) or (itrace and itrace[-1] != (len(mframes), len(mtail))):
            run.note('framing-short', 'stream %s cut mask %d: final state differs from the model on the uncut stream (impl %s raised=%s)' % (
                streams[sidx][1].hex(), mask, str(iframes)[:80], raised))
    chk.obligation('correspondence:framing-short', not run.mismatch.get('framing-short'), '; '.join(run.mismatch.get('framing-short', [])[:3]))


def stream_parts(frames):
    """ Octets of a frame list as parts (Gen data kept symbolic) and flat. """
    parts = []
    for (frame, _items) in frames:
        if frame[0] == 'seg' and isinstance(frame[4], Gen):
            octs = spec_encode(frame)
            parts.append(octs[:len(octs) - frame[4].length])
            parts.append(frame[4])
        else:
            parts.append(spec_encode(frame))
    flat = b''.join(octets_of(p) for p in parts)
    return (parts, flat)


def parts_json(parts):
    return [data_json(p) for p in parts]


def compare_streams(run, suite, jobs_list, results):
    for ((parts, flat, lens, obs), val) in zip(jobs_list, results):
        (mtrace, mframes, mtail) = canon_model(val)
        (itrace, iframes) = canon_impl(obs)
        if obs.raised or mtrace != itrace or mframes != iframes or (obs.tail is not None and brief(obs.tail) != mtail):
            run.note(suite, 'stream of %d octets cut %s: model %s %s / impl %s %s raised=%s' % (
                len(flat), lens[:12], str(mtrace)[:100], str(mframes)[:60], str(itrace)[:100], str(iframes)[:60], obs.raised))


def run_framing_long(chk, run, jobs, sizes):
    specs = long_streams(chk)
    plan = []
    futs = []
    for (sidx, (tag, frames)) in enumerate(specs):
        (parts, flat) = stream_parts(frames)
        (size, cuts) = directed_cuts(chk, frames, light=(tag == 'long-bigdata' and chk.quick()))
        assert size == len(flat)
        for (ctag, lens) in cuts:
            plan.append((tag, frames, parts, flat, ctag, lens))
        futs.append(jobs.add_cuts(c_parts(parts), [lens for (_c, lens) in cuts]))
    yield
    done = []
    for (tag, frames, parts, flat, ctag, lens) in plan:
        (_f, ends, _s) = spec_stream(flat)
        replay = dict(suite='framing', parts=parts_json(parts), lens=lens, mode='wrap')
        (obs, _bad) = run.framing_case(flat, lens, 'wrap', replay)
        splits = any((pos not in ends) for pos in _cum(lens)[:-1])
        chk.case(('long', flat[:64], len(flat), tuple(lens[:64]), len(lens)), nontrivial=splits,
                 sample=dict(suite='framing-long', octets=len(flat), frames=[KIND_NAMES_OF([f], 0) for (f, _i) in frames], cut=ctag,
                             reads=lens[:16], frames_acted_on=len(obs.frames), kept=obs.occupancy) if ctag == 'field-boundaries-1' and len(done) < 200 else None)
        chk.count('long_cut_kind', ctag)
        done.append((parts, flat, lens, obs))
    for (tag, frames) in specs:
        chk.count('long_stream_kind', tag)
        for (frame, items) in frames:
            chk.count('long_msg_type', KIND_NAMES_OF([frame], 0))
    sizes['framing_long_directed'] = len(done)
    yield
    results = []
    for hdl in futs:
        results += jobs.get(hdl)
    compare_streams(run, 'framing-long', done, results)
    chk.obligation('correspondence:framing-long', not run.mismatch.get('framing-long'), '; '.join(run.mismatch.get('framing-long', [])[:3]))


def run_framing_real(chk, run, jobs, sizes):
    """ Protocol-plausible streams through the REAL recv_message (passive
    endpoint: contact header, SESS_INIT, a segmented transfer, KEEPALIVE,
    SESS_TERM), observed by a recording wrapper that delegates. """
    rng = chk.rng
    plan = []
    futs = []
    for idx in range(4 if chk.quick() else 10):
        xid = rng.choice([0, 1, 7, 2 ** 32])
        data = [bytes(rng.randrange(256) for _ in range(rng.choice([0, 1, 9, 40]))) for _ in range(3)]
        total = sum(len(d) for d in data)
        tl_item = (rng.choice([0, 1]), 1, struct.pack('!Q', total))
        frames = [(GOOD_CONTACT, []),
                  (('init', rng.choice([0, 30]), 10 * 1024 ** 2, 2 ** 32, rng.choice(NODEIDS[1:4]), b''), []),
                  (('seg', 2, xid, spec_encode_items([tl_item]), data[0]), [tl_item]),
                  (('ka',), []),
                  (('seg', 0, xid, b'', data[1]), []),
                  (('seg', 1, xid, b'', data[2]), []),
                  (('seg', 3, xid + 1, b'', b''), []),
                  (('ka',), []),
                  (('term', 0, rng.choice([0, 1, 3])), [])]
        (parts, flat) = stream_parts(frames)
        (size, cuts) = directed_cuts(chk, frames)
        cuts = [(ctag, lens) for (ctag, lens) in cuts if not (ctag.startswith('two-reads') and rng.random() < 0.5)]
        for (ctag, lens) in cuts:
            plan.append((parts, flat, ctag, lens))
        futs.append(jobs.add_cuts(c_parts(parts), [lens for (_c, lens) in cuts]))
    yield
    done = []
    for (parts, flat, ctag, lens) in plan:
        (_f, ends, _s) = spec_stream(flat)
        replay = dict(suite='framing', parts=parts_json(parts), lens=lens, mode='real')
        (obs, _bad) = run.framing_case(flat, lens, 'real', replay)
        chk.case(('real', flat, tuple(lens)), nontrivial=any((pos not in ends) for pos in _cum(lens)[:-1]))
        chk.count('real_handler_cut_kind', ctag)
        done.append((parts, flat, lens, obs))
    sizes['framing_real_handler'] = len(done)
    yield
    results = []
    for hdl in futs:
        results += jobs.get(hdl)
    compare_streams(run, 'framing-real', done, results)
    chk.obligation('correspondence:framing-real-handler', not run.mismatch.get('framing-real'), '; '.join(run.mismatch.get('framing-real', [])[:3]))


def chain_region(count, typ=1, val=b'12345678'):
    """ ``count`` bound-type items each of whose length field covers all that follows. """
    item = b''
    for _ in range(count):
        item = struct.pack('!BHH', 0, typ, len(val) + len(item)) + val + item
    return item


def run_malformed(chk, run, jobs, sizes):
    """ Outside the property's quantifier (C17 owns unknown types): only model =
    implementation is checked, on the probe and on the receive loop. """
    rng = chk.rng

    def seg(region, data=b'xy', flags=3):
        return bytes([1, flags]) + struct.pack('!Q', 9) + struct.pack('!I', len(region)) + region + struct.pack('!Q', len(data)) + data

    def init(region):
        return bytes([7]) + struct.pack('!HQQH', 1, 2, 3, 1) + b'a' + struct.pack('!I', len(region)) + region

    def ext(flags, typ, val, length=None):
        return struct.pack('!BHH', flags, typ, len(val) if length is None else length) + val

    probes = [
        ('unknown-type', b'\x00'), ('unknown-type', b'\x08\x00\x00'), ('unknown-type', b'\xff' + b'\x04' * 5),
        ('garbage-region', seg(b'\x00\x00')), ('garbage-region', init(b'\x01')),
        ('truncated-item-header', seg(ext(0, 5, b'ab')[:4])),
        ('item-length-exceeds-region', seg(ext(0, 5, b'ab', 10))),
        ('item-length-short-of-region', seg(ext(0, 5, b'abcd', 2))),
        ('bound-type-wrong-length', seg(ext(0, 1, b'abcd'))), ('bound-type-wrong-length', seg(ext(0, 1, b'123456789'))),
        ('bound-type-wrong-length', seg(ext(0, 255, b'abc'))), ('bound-type-wrong-length', init(ext(0, 255, b'abc'))),
        ('bound-type-wrong-length', seg(ext(0, 1, b'123456789') + ext(0, 255, b'0123456789'))),
        ('chained-items', seg(chain_region(3))), ('chained-items-100', seg(chain_region(100))),
        ('chained-items-101', seg(chain_region(101))), ('chained-items-101', init(chain_region(101, 255, b'0123456789'))),
        ('chained-items-100', init(chain_region(100, 255, b'0123456789'))), ('chained-items', seg(chain_region(5, 255, b'0123456789'))),
        ('ext-size-beyond-buffer', seg(b'')[:10] + struct.pack('!I', 50) + b'abc'),
        ('region-on-non-start', bytes([1, 1]) + struct.pack('!Q', 9) + struct.pack('!I', 0) + struct.pack('!Q', 0)),
        ('truncated', seg(ext(1, 1, b'12345678'))[:-1]), ('truncated', init(b'')[:-2]), ('truncated', b'\x05\x00'),
        ('truncated', b'\x02' + b'\x00' * 16), ('truncated', b'\x07\x00\x01'),
    ]
    for _ in range(20 if chk.quick() else 120):
        base = spec_encode(gen_frame(rng)[0])
        if len(base) > 400:
            continue
        mode = rng.randrange(3)
        if mode == 0 and len(base) > 1:
            probes.append(('truncated', base[:rng.randrange(1, len(base))]))
        elif mode == 1:
            pos = rng.randrange(len(base))
            probes.append(('bit-flip', base[:pos] + bytes([base[pos] ^ (1 << rng.randrange(8))]) + base[pos + 1:]))
        else:
            probes.append(('random-octets', bytes(rng.randrange(256) for _ in range(rng.randrange(1, 40)))))
    # evaluated lazily: a corrupted length field can declare 2^37 or 2^63 octets, and the
    # model's [take_n (N.to_nat len)] would make vm_compute build that unary number
    # (call-by-value); under [lazy] only length(buffer)+1 constructors of it are ever forced
    h_probe = [jobs.add('ltac:(let v := eval lazy in (probe_msg %s) in exact v)' % coq_bytes(buf)) for (_t, buf) in probes]
    streams = []
    hdr = spec_encode(GOOD_CONTACT)
    streams.append(('stall-unknown-type', hdr + b'\x04' + b'\x09\x05\x00\x03'))
    streams.append(('stall-unknown-type', hdr + b'\x05\x00\x01' + b'\x00' + b'\x04\x04'))
    streams.append(('bad-magic', b'dtn?\x04\x00' + b'\x04\x04' + b'dtn!\x04\x00' + b'\x04'))
    streams.append(('bad-version', b'dtn!\x03\x00' + b'dtn!\x04\x01' + b'\x05\x00\x00'))
    streams.append(('garbage-region', hdr + seg(b'\x00\x00\x00') + b'\x04'))
    streams.append(('chained-items-101', hdr + b'\x04' + seg(chain_region(101)) + b'\x04'))
    plan = []
    for (tag, stream) in streams:
        cut_sets = [[len(stream)], [1] * len(stream), lens_from_points([5, 6, 7, 9], len(stream))]
        if len(stream) > 60:
            cut_sets = [[len(stream)], lens_from_points([3, 6, 7, 20, len(stream) - 1], len(stream))]
        for lens in cut_sets:
            plan.append((tag, stream, lens))
    h_stream = [jobs.add('(rx_brief (%s, %s))' % (coq_bytes(stream), c_lens(lens))) for (_t, stream, lens) in plan]
    yield
    count = 0
    impl_probe = []
    for (tag, buf) in probes:
        count += 1
        chk.count('malformed_probe', tag)
        try:
            probe = real_probe(buf)
            impl = [] if probe is None else [([brief(f) for f in render(real_fields(probe[0])[0])], len(probe[1]))]
            if probe is not None and probe[1] != buf[:len(probe[1])]:
                impl = ['re-encoding differs from the consumed octets']
        except Exception as err:
            impl = ['raised %s' % err.__class__.__name__]
        impl_probe.append(impl)
    done = []
    for (tag, stream, lens) in plan:
        replay = dict(suite='framing', stream=stream.hex(), lens=lens, mode='wrap')
        (obs, _bad) = run.framing_case(stream, lens, 'wrap', replay, verdict=False)
        done.append(([stream], stream, lens, obs))
        chk.count('malformed_stream', tag)
        count += 1
    sizes['malformed'] = count
    chk.coverage['malformed_cases_outside_verdict'] = count
    yield
    for ((tag, buf), impl, val) in zip(probes, impl_probe, [jobs.get(hdl) for hdl in h_probe]):
        # model gives the number of octets left, implementation the number consumed
        got = [([list(f) for f in ent[0]], len(buf) - ent[1]) for ent in val]
        if got != impl:
            run.note('malformed', '%s %s: model %s / impl %s' % (tag, buf.hex()[:60], str(got)[:100], str(impl)[:100]))
    compare_streams(run, 'malformed', done, [jobs.get(hdl) for hdl in h_stream])
    chk.obligation('correspondence:malformed (no verdict)', not run.mismatch.get('malformed'), '; '.join(run.mismatch.get('malformed', [])[:3]))


def session_run(obj, chunks):
    """ One schedule on the real endpoint pair: setup ops, then the given reads.
    Returns (frames acted on after the setup, closed, octets kept, escaped exceptions). """
    sysm = tcpcl_drive.System()
    end = obj.get('endpoint', 'A')
    hdl = sysm.ep[end].h
    log = []
    orig = hdl.recv_message

    def recorder(pkt):
        log.append(bytes(pkt).hex())
        return orig(pkt)

    hdl.recv_message = recorder
    for oper in obj['setup']:
        if oper[0] == 'start':
            sysm.apply(('start', end))
        elif oper[0] == 'rx':
            sysm.apply(('inject', end, bytes.fromhex(oper[1])))
            sysm.apply(('rxpump', end, 1 << 20))
        elif oper[0] == 'term':
            sysm.apply(('term', end, oper[1]))
        elif oper[0] == 'drain':
            for _ in range(8):
                sysm.apply(('txpump', end, 1 << 20))
        else:
            raise ValueError(oper)
    base = len(log)
    for chunk in chunks:
        sysm.apply(('inject', end, bytes.fromhex(chunk)))
        sysm.apply(('rxpump', end, 1 << 20))
    snap = sysm.snapshot(end)
    return dict(frames=log[base:], closed=bool(snap['closed']), kept=snap['rx_buf'].hex(),
                escaped=[list(ent[1:3]) for ent in sysm.escaped])


def session_case(chk, run, obj):
    """ Session-level split invariance on the real handler: the same octets in
    different chunkings must give the same frames acted on and the same
    open/closed state.  (Coq: false in general, C07_session_two_reads_refuted;
    true while the endpoint stays open, C07_session_stream_only.) """
    outs = [session_run(obj, chunks) for chunks in obj['chunkings']]
    chk.case(('session', json.dumps(obj, sort_keys=True)), nontrivial=len(obj['chunkings']) > 1,
             sample=dict(suite='session', chunkings=obj['chunkings'], observed=outs))
    chk.count('session_schedules', len(outs))
    # octets left unread once the connection is closed are not an observation
    key = [(out['frames'], out['closed'], out['escaped'], None if out['closed'] else out['kept']) for out in outs]
    differ = any(ent != key[0] for ent in key[1:])
    if differ:
        terminating = any(step[0] == 'term' for step in obj['setup'])
        sig = KNOWN_IDLE_SIG if terminating else 'C07 / session / frames acted on depend on the chunking (endpoint not terminating)'
        run.fail(sig, 'chunkings %s give %s' % (obj['chunkings'], [(o['frames'], o['closed']) for o in outs]), obj)
    return (outs, differ)


def load_corpus():
    out = []
    for path in sorted(glob.glob(os.path.join(VERIF, 'harness', 'corpus', 'C07_*.json'))):
        with open(path) as infile:
            ent = json.load(infile)
        out.append((os.path.basename(path), ent.get('replay', ent)))
    return out


def frame_unjson(lst):
    kind = lst[0]
    vals = []
    for val in lst[1:]:
        if isinstance(val, str) or (isinstance(val, list) and val and val[0] == 'gd'):
            vals.append(data_unjson(val))
        else:
            vals.append(val)
    return (kind,) + tuple(vals)


def run_all(chk):
    import multiprocessing
    run = Runner(chk)
    # worker processes are forked before any thread exists
    pool = multiprocessing.get_context('fork').Pool(min(8, os.cpu_count() or 2))
    jobs = ModelJobs(chk)
    corpus_codec = []
    corpus_framing = []
    corpus_session = []
    for (name, obj) in load_corpus():
        chk.count('corpus', name)
        if obj.get('suite') == 'codec':
            corpus_codec.append((frame_unjson(obj['frame']), [(it[0], it[1], bytes.fromhex(it[2])) for it in obj['items']], bytes.fromhex(obj.get('tail', ''))))
        elif obj.get('suite') == 'framing':
            corpus_framing.append(obj)
        elif obj.get('suite') == 'session':
            corpus_session.append(obj)
    laps = chk.coverage.setdefault('phase_seconds', {})
    last = [time.time()]

    def lap(name):
        laps[name] = round(time.time() - last[0], 1)
        last[0] = time.time()

    for obj in corpus_framing:
        replay_framing(chk, run, obj)
    for obj in corpus_session:
        session_case(chk, run, obj)
    # the same schedule without terminate(): chunking must not matter (C07_session_stream_only)
    for obj in corpus_session:
        plain = dict(obj, setup=[step for step in obj['setup'] if step[0] != 'term'])
        session_case(chk, run, plain)
    sizes = {}
    # the long-running model evaluations are submitted first; they run in the
    # background while the implementation side of every suite runs here
    stages = [('framing_short', run_framing_short(chk, run, jobs, sizes, pool)),
              ('framing_long', run_framing_long(chk, run, jobs, sizes)),
              ('framing_real', run_framing_real(chk, run, jobs, sizes)),
              ('malformed', run_malformed(chk, run, jobs, sizes)),
              ('codec', run_codec(chk, run, jobs, corpus_codec, sizes))]
    try:
        for (name, gen) in stages:
            next(gen)               # generate the cases, register the model terms (starts the worker pool)
        lap('generate')
        jobs.start()                # one sharded coqc run in the background
        # the proof obligations are re-checked while the model evaluation and
        # the worker processes run
        chk.coq_props()
        chk.coq_props_extra('Props/C07sess.v')
        lap('coq_props+C07sess')
        for (name, gen) in stages:
            next(gen)               # implementation side + oracle
            lap('impl:' + name)
        for (name, gen) in stages:
            for _ in gen:           # wait for the model, compare
                pass
            lap('model-wait+compare:' + name)
    finally:
        jobs.pool.shutdown(wait=True)
        pool.terminate()
    chk.coverage['suite_sizes'] = sizes
    chk.coverage['failing_inputs_by_signature'] = dict(run.failed)
    chk.coverage['exhaustive'] = False
    chk.coverage['exhaustive_note'] = 'every one of the 2^(n-1) cuts of each short stream is run on the implementation'
    print('# phases (s): %s' % json.dumps(laps, sort_keys=True))
    return run


def search_more(chk):
    ''' A tie is broken and the oracle has not failed yet: 10x the directed
    budget on the implementation alone. '''
    run = Runner(chk)
    saved = chk.tier
    chk.tier = 'thorough'
    found = False
    try:
        for (_tag, stream) in short_streams(chk):
            for mask in range(1 << (len(stream) - 1)):
                lens = cut_lens(mask, len(stream))
                (_o, bad) = run.framing_case(stream, lens, 'wrap', dict(suite='framing', stream=stream.hex(), lens=lens, mode='wrap'))
                found = found or bool(bad)
            if found:
                break
        for (_tag, frames) in long_streams(chk):
            (parts, flat) = stream_parts(frames)
            for (_ctag, lens) in directed_cuts(chk, frames)[1]:
                (_o, bad) = run.framing_case(flat, lens, 'wrap', dict(suite='framing', parts=parts_json(parts), lens=lens, mode='wrap'))
                found = found or bool(bad)
        for _ in range(3000):
            (frame, items) = gen_frame(chk.rng)
            tail = b'\x04'
            impl = run.codec_impl(frame, items, tail)
            replay = dict(suite='codec', frame=[frame[0]] + [data_json(f) if isinstance(f, (bytes, Gen)) else f for f in frame[1:]],
                          items=[[fl, ty, val.hex()] for (fl, ty, val) in items], tail=tail.hex())
            if run.codec_oracle(frame, items, tail, impl, replay):
                found = True
    finally:
        chk.tier = saved
    return found


def replay_framing(chk, run, obj):
    if 'stream' in obj:
        stream = bytes.fromhex(obj['stream'])
    else:
        stream = b''.join(octets_of(data_unjson(p)) for p in obj['parts'])
    lens = list(obj['lens'])
    (obs, bad) = run.framing_case(stream, lens, obj.get('mode', 'wrap'), obj)
    return (stream, lens, obs, bad)


def replay(chk, path):
    with open(path) as infile:
        ent = json.load(infile)
    obj = ent.get('replay', ent)
    run = Runner(chk)
    why = None
    if obj.get('suite') == 'framing':
        (stream, lens, obs, bad) = replay_framing(chk, run, obj)
        print('replay framing: %d octets in %d read(s) %s -> trace %s, %d frame(s) acted on, %s octets kept, raised=%s' % (
            len(stream), len(lens), lens[:16], [(c, u) for (c, u, _i, _t) in obs.trace][:16], len(obs.frames), obs.occupancy, obs.raised))
        (frames, ends, stalled) = spec_stream(stream)
        print('  independent decoder: %d complete frame(s) ending at %s%s' % (len(frames), ends[:16], ' (then an unknown message type)' if stalled else ''))
        why = bad and '%s: %s' % bad
    elif obj.get('suite') == 'codec':
        frame = frame_unjson(obj['frame'])
        items = [(it[0], it[1], bytes.fromhex(it[2])) for it in obj['items']]
        tail = bytes.fromhex(obj.get('tail', ''))
        impl = run.codec_impl(frame, items, tail)
        print('replay codec: %s items=%d -> implementation encodes %s, decodes %s, item view %s' % (
            frame[0], len(items), (impl.get('enc') or b'').hex()[:100], str(impl.get('dec'))[:160], str(impl.get('view'))[:200]))
        before = len(chk.violations) + len(chk.known_hits)
        run.codec_oracle(frame, items, tail, impl, obj)
        if len(chk.violations) + len(chk.known_hits) > before:
            why = (chk.violations[-1][1] if chk.violations else 'known finding reproduced')
    elif obj.get('suite') == 'session':
        (outs, differ) = session_case(chk, run, obj)
        for (chunks, out) in zip(obj['chunkings'], outs):
            print('replay session: reads %s -> frames %s closed=%s kept=%s escaped=%s' % (chunks, out['frames'], out['closed'], out['kept'], out['escaped']))
        why = differ and 'the chunkings are acted on differently'
    else:
        print('replay file names no input (broken obligation): %s' % json.dumps(obj)[:600])
    chk.case(('replay', path), nontrivial=True, sample=dict(replay=os.path.basename(path), failed=bool(why)))
    chk.case(('replay-marker', 0), nontrivial=True)
    chk.obligation('replay', True, '')
    print('replay verdict: %s' % (why or 'oracle satisfied'))
    chk.finish(rule='replay of one recorded input through the real code and the property oracle')


def main():
    chk = Check('C07', level='proof', description=__doc__)
    if chk.args.replay:
        replay(chk, chk.args.replay)
        return
    # the model file must be built before its evaluation starts; the theorem
    # files are re-checked inside run_all, concurrently with the evaluation
    (ret, out) = chk.coq_make(['Model/TcpclMsg.vo'])
    if ret != 0:
        chk.obligation('build:Model/TcpclMsg.vo', False, chk._first_error(out))
    chk.coverage['phase_seconds'] = dict(build_model=round(time.time() - chk.start, 1))
    try:
        run = run_all(chk)
    except CoqError as err:
        print('model evaluation failed: %s' % str(err)[:1500])
        chk.obligation('correspondence:model-evaluation', False, str(err)[:600])
    for (name, okay, detail) in chk.obligations:
        if not okay:
            print('# broken: %s: %s' % (name, detail[:1200]))
    broken = [name for (name, okay, _d) in chk.obligations if not okay]
    if broken and not any(not no_input for (_s, _w, _p, no_input) in chk.violations):
        search_more(chk)
    chk.finish(
        rule=('codec: messages of every type with field values at the width boundaries (0,1,255,256,65535,65536,2^32-1,2^32,2^63,2^64-1), '
              'extension lists of 0-3 items (types 0x01, 0xFF, unknown; value sizes 0..255), node ids incl. empty/UTF-8/255+ octets, data 0 octets '
              'to 70001 octets (mkdata), each followed by 0-2 trailing octets. framing: every one of the 2^(n-1) cuts of each short stream (contact '
              'header + KEEPALIVE/SESS_TERM/REJECT/XFER_REFUSE, some cut short; n <= 12 quick / 14 thorough) run on the real recv_raw; long '
              'streams with every message type cut at message boundaries, field boundaries, each +-1, two reads at boundaries +-1, one-octet '
              'reads, random cuts; protocol-plausible streams through the real recv_message. The model is evaluated on the uncut stream, on a '
              'sample of the short cuts and on every directed cut. Malformed inputs (unknown types, garbage regions, 101-item chain, bit flips) '
              'compare model and implementation only. Non-trivial: a codec case other than KEEPALIVE; a framing case with at least one read '
              'boundary strictly inside a frame. Distinct by (stream, cut) / (encoding, tail).'),
        extra_cov=dict(model='coq/Model/TcpclMsg.v',
                       refuted=['C07_codec_exts_refuted (known finding: %s)' % KNOWN_EXT_SIG,
                                'C07_session_two_reads_refuted (known finding: %s)' % KNOWN_IDLE_SIG],
                       partial=['C07_codec_exts_partial (item lists of at most one item)', 'C07_codec_roundtrip (message level, region as octets) holds in full']),
        assumptions=['harness stubs for dbus and gi.repository.GLib (virtual main context) are trusted to behave as the real libraries',
                     'scapy 2.7.0 Packet/Field machinery is mirrored by the hand-written model (Model/TcpclMsg.v) and validated by correspondence only',
                     'the independent codec (spec_encode/spec_decode in this file) is written from RFC 9174 sections 4.1, 4.7, 4.8, 5.1, 5.2, 6.1 with plain struct',
                     'framing runs replace recv_message by a recorder (the contact header is always passed on to the real recv_message, which owns the phase flag; '
                     'messages too in the real-handler suite); timers never fire during a receive sequence',
                     'model limit: extension regions are opaque at the framing level except for scapy\'s max_list_count=100 (modelled by ext_count_ok)'])


if __name__ == '__main__':
    main()
