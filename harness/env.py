''' Import environment for driving the real dtn-demo-agent modules offline.

Usage (must be the first import of a harness script run by /venv/bin/python):

    import env  # noqa  (sets sys.path, applies the oscrypto shim)
'''
import os
import re
import sys

HERE = os.path.dirname(os.path.abspath(__file__))
STUBS = os.path.join(HERE, 'stubs')
REPO = os.environ.get('VERIF_REPO', '/repo')
REPO_SRC = os.path.join(REPO, 'src')

for path in (REPO_SRC, STUBS):
    if path in sys.path:
        sys.path.remove(path)
sys.path.insert(0, REPO_SRC)
sys.path.insert(0, STUBS)
sys.path.insert(0, HERE)

import logging  # noqa: E402
logging.disable(logging.CRITICAL)


def shim_oscrypto():
    ''' oscrypto 1.3.0 rejects OpenSSL "3.0.20" (two-digit patch level) with
    its version regex; rewrite that one pattern while importing it. '''
    orig = re.search

    def patched(pattern, string, flags=0):
        if isinstance(pattern, str) and pattern == '\\b(\\d\\.\\d\\.\\d[a-z]*)\\b':
            pattern = '\\b(\\d+\\.\\d+\\.\\d+[a-z]*)\\b'
        return orig(pattern, string, flags)

    re.search = patched
    try:
        import oscrypto._openssl._libcrypto_cffi  # noqa: F401
    except Exception:
        try:
            import oscrypto._openssl._libcrypto_ctypes  # noqa: F401
        except Exception:
            pass
    finally:
        re.search = orig


def shim_ssl():
    ''' Python 3.12 has no ssl.match_hostname; session.py calls it "for
    reference" only. '''
    import ssl
    if not hasattr(ssl, 'match_hostname'):
        def match_hostname(cert, hostname):
            return None
        ssl.match_hostname = match_hostname
    if not hasattr(ssl, 'CertificateError'):
        ssl.CertificateError = ssl.SSLCertVerificationError


shim_ssl()
