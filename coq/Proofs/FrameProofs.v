(** Generic stream framing: the receive loop of [Messenger.recv_raw] over an
    abstract probe and an abstract handler.

    [loop] is the [while self.__rx_buf:] loop: stop on an empty buffer; probe
    the buffer in the phase the handler state is in; "partial" ([None]) leaves
    state and buffer untouched; a complete frame is handed to the handler and
    the loop continues on the octets the probe left over; the loop also stops
    as soon as the handler has closed the connection ([alive s = false]).
    [recv] is one call of [recv_raw(chunk)] ("always append", then loop).

    From two contract properties of the probe
      [probe_shrinks] a complete frame consumes at least one octet
      [probe_stable]  a decision taken on a buffer is not changed by octets
                      that arrive later (in either phase)
    the loop is split-invariant for EVERY octet stream (valid or not) and
    EVERY handler: [split_invariance].

    With an encoder that the probe inverts ([probe_encode]) and whose strict
    prefixes the probe leaves alone ([probe_prefix]) the loop handles exactly
    the frames of a well-formed stream, each one in the read that delivers its
    final octet: [stream_theorem], [stream_cut], [stream_any_cut]. *)
From Coq Require Import List Arith Lia.
Import ListNotations.

Section Framing.
  Variable byte : Type.
  Variable St : Type.                 (* handler state *)
  Variable frame : Type.
  Variable phase : St -> bool.
  Variable alive : St -> bool.        (* the connection is still open *)
  Variable probe : bool -> list byte -> option (frame * list byte).
  Variable handle : St -> frame -> St.

  Hypothesis probe_shrinks : forall ph b f r, probe ph b = Some (f, r) -> length r < length b.
  Hypothesis probe_stable : forall ph b e f r, probe ph b = Some (f, r) -> probe ph (b ++ e) = Some (f, r ++ e).

  Fixpoint loop (fuel : nat) (s : St) (buf : list byte) : St * list byte :=
    match fuel with
    | O => (s, buf)
    | S fuel' =>
      match buf with
      | [] => (s, buf)
      | _ :: _ =>
        if alive s then
          match probe (phase s) buf with
          | None => (s, buf)
          | Some (f, r) => loop fuel' (handle s f) r
          end
        else (s, buf)
      end
    end.

  Definition recv (st : St * list byte) (chunk : list byte) : St * list byte :=
    loop (S (length (snd st ++ chunk))) (fst st) (snd st ++ chunk).

  (** More fuel than octets is always enough, so the amount does not matter. *)
  Lemma loop_fuel : forall f1 f2 s buf,
    length buf < f1 -> length buf < f2 -> loop f1 s buf = loop f2 s buf.
  Proof.
    induction f1 as [|f1 IH]; intros f2 s buf H1 H2; [lia|].
    destruct f2 as [|f2]; [lia|]. cbn [loop].
    destruct buf as [|x buf]; [reflexivity|].
    destruct (alive s); [|reflexivity].
    destruct (probe (phase s) (x :: buf)) as [[f r]|] eqn:P; [|reflexivity].
    pose proof (probe_shrinks _ _ _ _ P) as L.
    apply IH; lia.
  Qed.

  (** Octets appended to the buffer only matter once the loop has stopped. *)
  Lemma loop_app : forall fuel s buf ext s' r,
    length buf < fuel -> loop fuel s buf = (s', r) ->
    loop (S (length (buf ++ ext))) s (buf ++ ext) = loop (S (length (r ++ ext))) s' (r ++ ext).
  Proof.
    induction fuel as [|fuel IH]; intros s buf ext s' r Hf E; [lia|].
    cbn [loop] in E. destruct buf as [|x buf].
    - inversion E; subst. reflexivity.
    - destruct (alive s) eqn:A; [|inversion E; subst; reflexivity].
      destruct (probe (phase s) (x :: buf)) as [[f r1]|] eqn:P.
      + pose proof (probe_shrinks _ _ _ _ P) as L.
        pose proof (probe_stable _ _ ext _ _ P) as P'.
        cbn [loop]. cbn [app] in *. rewrite A, P'.
        rewrite (loop_fuel (length (x :: buf ++ ext)) (S (length (r1 ++ ext)))).
        * apply IH with (buf := r1); [lia|exact E].
        * cbn [length] in *. rewrite !app_length. lia.
        * lia.
      + inversion E; subst. reflexivity.
  Qed.

  Lemma recv_recv : forall st c1 c2, recv (recv st c1) c2 = recv st (c1 ++ c2).
  Proof.
    intros [s b] c1 c2. unfold recv at 2 3. cbn [fst snd].
    destruct (loop (S (length (b ++ c1))) s (b ++ c1)) as [s1 r1] eqn:D.
    unfold recv. cbn [fst snd]. rewrite app_assoc.
    symmetry. apply loop_app with (fuel := S (length (b ++ c1))); [lia|exact D].
  Qed.

  (** The state reached and the octets kept depend on the stream alone, not on
      how it was cut into reads. *)
  Theorem split_invariance : forall chunks c st,
    fold_left recv chunks (recv st c) = recv st (c ++ concat chunks).
  Proof.
    induction chunks as [|c1 cs IH]; intros c st; cbn [fold_left concat].
    - rewrite app_nil_r. reflexivity.
    - rewrite recv_recv, IH, app_assoc. reflexivity.
  Qed.

  Lemma recv_nil : forall st, recv (recv st []) [] = recv st [].
  Proof. intros st. rewrite recv_recv. reflexivity. Qed.

  Corollary split_invariance_any : forall chunks1 chunks2 st,
    concat chunks1 = concat chunks2 ->
    fold_left recv chunks1 (recv st []) = fold_left recv chunks2 (recv st []).
  Proof.
    intros chunks1 chunks2 st E. rewrite !split_invariance, E. reflexivity.
  Qed.

  (** A stopped loop is stable: receiving nothing changes nothing. *)
  Lemma loop_idem : forall fuel s buf s' r,
    length buf < fuel -> loop fuel s buf = (s', r) -> recv (s', r) [] = (s', r).
  Proof.
    induction fuel as [|fuel IH]; intros s buf s' r Hf E; [lia|].
    cbn [loop] in E. destruct buf as [|x buf].
    - inversion E; subst. reflexivity.
    - destruct (alive s) eqn:A.
      + destruct (probe (phase s) (x :: buf)) as [[f r1]|] eqn:P.
        * pose proof (probe_shrinks _ _ _ _ P) as L. apply IH with (s := handle s f) (buf := r1); [lia|exact E].
        * inversion E; subst. unfold recv. cbn [fst snd]. rewrite app_nil_r. cbn [loop]. rewrite A, P. reflexivity.
      + inversion E; subst. unfold recv. cbn [fst snd]. rewrite app_nil_r. cbn [loop]. rewrite A. reflexivity.
  Qed.

  Lemma recv_idem : forall st c, recv (recv st c) [] = recv st c.
  Proof.
    intros [s b] c. unfold recv at 2 3. cbn [fst snd].
    destruct (loop (S (length (b ++ c))) s (b ++ c)) as [s1 r1] eqn:D.
    apply loop_idem with (fuel := S (length (b ++ c))) (s := s) (buf := b ++ c); [lia|exact D].
  Qed.

  (** Cutting a stream into reads, starting from any state with any kept tail. *)
  Theorem split_invariance_from : forall chunks st,
    fold_left recv chunks st = match chunks with [] => st | _ => recv st (concat chunks) end.
  Proof.
    intros [|c cs] st; [reflexivity|]. cbn [fold_left concat]. apply split_invariance.
  Qed.

  (** ** Well-formed streams *)
  Variable encode : frame -> list byte.
  Variable accepts : bool -> frame -> Prop.   (* frame [f] is well-formed and legal in phase [ph] *)
  Hypothesis probe_encode : forall ph f rest, accepts ph f -> probe ph (encode f ++ rest) = Some (f, rest).
  Hypothesis probe_prefix : forall ph f q q', accepts ph f -> encode f = q ++ q' -> q' <> [] -> probe ph q = None.

  (** The frame sequence is legal for the handler: each frame is accepted in
      the phase the handler is in when it arrives, and the handler has not
      closed the connection before it arrives. *)
  Fixpoint consistent (s : St) (fs : list frame) : Prop :=
    match fs with
    | [] => True
    | f :: fs' => alive s = true /\ accepts (phase s) f /\ consistent (handle s f) fs'
    end.

  Lemma encode_nonempty : forall ph f, accepts ph f -> encode f <> [].
  Proof.
    intros ph f A E. pose proof (probe_encode ph f [] A) as P.
    apply probe_shrinks in P. rewrite E in P. cbn in P. lia.
  Qed.

  Lemma consistent_app : forall fs1 fs2 s,
    consistent s (fs1 ++ fs2) <-> consistent s fs1 /\ consistent (fold_left handle fs1 s) fs2.
  Proof.
    induction fs1 as [|f fs1 IH]; intros fs2 s; cbn [app consistent fold_left].
    - tauto.
    - rewrite IH. tauto.
  Qed.

  (** Every frame of a well-formed stream is handled, in order, and nothing is
      left in the buffer. *)
  Theorem stream_theorem : forall fs s,
    consistent s fs -> recv (s, []) (concat (map encode fs)) = (fold_left handle fs s, []).
  Proof.
    induction fs as [|f fs IH]; intros s C.
    - reflexivity.
    - destruct C as (AL & A & C). cbn [map concat fold_left].
      pose proof (encode_nonempty _ _ A) as NE.
      unfold recv. cbn [fst snd app]. cbn [loop].
      destruct (encode f ++ concat (map encode fs)) as [|x l] eqn:E.
      { destruct (encode f); [congruence|discriminate]. }
      rewrite <- E. rewrite AL, (probe_encode _ _ _ A).
      specialize (IH _ C). unfold recv in IH. cbn [fst snd app] in IH.
      rewrite <- IH. apply loop_fuel.
      + rewrite E, <- E. rewrite app_length. destruct (encode f); [congruence|]. cbn [length]. lia.
      + lia.
  Qed.

  (** Cut anywhere: the frames whose final octet has arrived are handled, the
      proper prefix [q] of the next one is left untouched in the buffer. *)
  Theorem stream_cut : forall fs1 f fs2 s q q',
    consistent s (fs1 ++ f :: fs2) -> encode f = q ++ q' -> q' <> [] ->
    recv (s, []) (concat (map encode fs1) ++ q) = (fold_left handle fs1 s, q).
  Proof.
    intros fs1 f fs2 s q q' C E NE.
    apply consistent_app in C. destruct C as [C1 (_ & A & _)].
    rewrite <- recv_recv. rewrite (stream_theorem _ _ C1).
    unfold recv. cbn [fst snd app]. cbn [loop].
    destruct q as [|x q]; [reflexivity|].
    rewrite (probe_prefix _ _ _ _ A E NE). destruct (alive (fold_left handle fs1 s)); reflexivity.
  Qed.

  (** The same, for any way of cutting the received octets into reads. *)
  Corollary stream_any_cut : forall fs1 f fs2 s q q' chunks,
    consistent s (fs1 ++ f :: fs2) -> encode f = q ++ q' -> q' <> [] ->
    concat chunks = concat (map encode fs1) ++ q ->
    fold_left recv chunks (recv (s, []) []) = (fold_left handle fs1 s, q).
  Proof.
    intros fs1 f fs2 s q q' chunks C E NE EC.
    rewrite split_invariance. cbn [app]. rewrite EC. eapply stream_cut; eassumption.
  Qed.

  Corollary stream_any_cut_all : forall fs s chunks,
    consistent s fs -> concat chunks = concat (map encode fs) ->
    fold_left recv chunks (recv (s, []) []) = (fold_left handle fs s, []).
  Proof.
    intros fs s chunks C EC. rewrite split_invariance. cbn [app]. rewrite EC.
    apply stream_theorem. exact C.
  Qed.
End Framing.

(** ** The logging handler: any handler, run next to a log of the frames it
    was given.  Instantiating the section above with it turns every statement
    about "the state reached" into one about "the list of frames acted on". *)
Section Logging.
  Variable byte : Type.
  Variable St : Type.
  Variable frame : Type.
  Variable phase : St -> bool.
  Variable alive : St -> bool.
  Variable probe : bool -> list byte -> option (frame * list byte).
  Variable handle : St -> frame -> St.

  Definition lalive (sl : St * list frame) : bool := alive (fst sl).
  Definition lphase (sl : St * list frame) : bool := phase (fst sl).
  Definition lhandle (sl : St * list frame) (f : frame) : St * list frame :=
    (handle (fst sl) f, snd sl ++ [f]).

  Definition lrecv := recv byte (St * list frame) frame lphase lalive probe lhandle.
  Definition precv := recv byte St frame phase alive probe handle.

  (** Logging does not disturb the handler ... *)
  Lemma lloop_sim : forall fuel s log buf,
    fst (fst (loop byte (St * list frame) frame lphase lalive probe lhandle fuel (s, log) buf))
      = fst (loop byte St frame phase alive probe handle fuel s buf)
    /\ snd (loop byte (St * list frame) frame lphase lalive probe lhandle fuel (s, log) buf)
      = snd (loop byte St frame phase alive probe handle fuel s buf).
  Proof.
    induction fuel as [|fuel IH]; intros s log buf; cbn [loop].
    - split; reflexivity.
    - destruct buf as [|x buf]; [split; reflexivity|].
      unfold lphase, lalive. cbn [fst].
      destruct (alive s); [|split; reflexivity].
      destruct (probe (phase s) (x :: buf)) as [[f r]|]; [|split; reflexivity].
      change (lhandle (s, log) f) with (handle s f, log ++ [f]). apply IH.
  Qed.

  Lemma lrecv_sim : forall s log buf c,
    fst (fst (lrecv ((s, log), buf) c)) = fst (precv (s, buf) c)
    /\ snd (lrecv ((s, log), buf) c) = snd (precv (s, buf) c).
  Proof.
    intros s log buf c. unfold lrecv, precv, recv. cbn [fst snd]. apply lloop_sim.
  Qed.

  (** ... and the log only grows. *)
  Lemma lloop_mono : forall fuel s log buf,
    exists more, snd (fst (loop byte (St * list frame) frame lphase lalive probe lhandle fuel (s, log) buf)) = log ++ more.
  Proof.
    induction fuel as [|fuel IH]; intros s log buf; cbn [loop].
    - exists []. rewrite app_nil_r. reflexivity.
    - destruct buf as [|x buf]; [exists []; rewrite app_nil_r; reflexivity|].
      destruct (lalive (s, log)); [|exists []; rewrite app_nil_r; reflexivity].
      destruct (probe (lphase (s, log)) (x :: buf)) as [[f r]|]; [|exists []; rewrite app_nil_r; reflexivity].
      change (lhandle (s, log) f) with (handle s f, log ++ [f]).
      destruct (IH (handle s f) (log ++ [f]) r) as [more E]. exists (f :: more).
      rewrite E, <- app_assoc. reflexivity.
  Qed.

  Lemma lrecv_mono : forall st c, exists more, snd (fst (lrecv st c)) = snd (fst st) ++ more.
  Proof.
    intros [[s log] buf] c. unfold lrecv, recv. cbn [fst snd]. apply lloop_mono.
  Qed.
End Logging.
