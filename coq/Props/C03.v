(** C03 - A COSE integrity block verifies iff nothing it covers was altered.

    The statements are over [Model/BpSec.v] (bundle at the CBOR-tree level).
    The cryptographic primitives and key resolution are explicit parameters
    of every theorem; their properties are explicit premises:
      correctness   [mac_ok k m (mac k m) = true], [unwrap kek (wrap kek cek) = Some cek]
      idealisation  [mac_ok k x t = true -> mac_ok k' y t = true -> k = k' /\ x = y]
                    (a tag / signature is valid for at most one key and message;
                     NOT proved of HMAC / ECDSA / RSA-PSS - that part of the
                     property is exercised by the harness with the real libraries).
    Non-vacuity of the premises: [BpSecProofs.Ex] instantiates the primitives
    ([macS_inj] etc.) and runs a concrete bundle ([complete_run],
    [complete_premises], [sound_run], [wf_op_run]).

    Full property (kept visible): "verification fails after ANY change to
    ... the primary block ... security source".  That is proved for the
    content as DECODED ([C03_binding], [C03_sound]).  For the octets on the
    wire it is false of the unchanged code: see [C03_wire_primary_refuted] and
    [C03_wire_source_refuted] (EID normalisation); [C03_binding] is the
    strongest true statement (the _partial of the pair). *)
From Coq Require Import List NArith.
From DTN Require Import Lib.Bytes Lib.Cbor Model.BpSec Proofs.BpSecProofs.
Import ListNotations.
Local Open Scope N_scope.

(** The verifier recomputes, from the received bundle (security block now
    inserted and filled in), the AAD the source computed while the security
    block "is not yet part of the bundle": the AAD does not depend on that. *)
Theorem C03_aad_agreement :
  forall (b : bundle) (sec sec' tgt tgt' : cblock) (source : cbor) (s : scope) (addl : bytes),
    meta_items sec' = meta_items sec ->
    meta_items tgt' = meta_items tgt -> cb_btsd tgt' = cb_btsd tgt ->
    (forall f, In (CNint 1, f) s -> flag_btsd f = false) ->
    ~ In (CUint (cb_num sec)) (map fst s) ->
    external_aad (insert_block b sec') sec' tgt' source s addl = external_aad b sec tgt source s addl.
Proof. exact aad_agreement. Qed.
Print Assumptions C03_aad_agreement.

(** The MAC / signature input is an INJECTIVE function of exactly the covered
    content: COSE context string, protected header parameters, security
    source, AAD scope, per scope entry the primary block / block type, number,
    flags / BTSD selected by its flag bits, additional protected parameters,
    and the target's BTSD.  So every alteration of covered content changes
    what is authenticated, and every alteration of anything else leaves it
    unchanged. *)
Theorem C03_binding :
  forall o o' : secop, wf_op o -> wf_op o' -> (mac_input o = mac_input o' <-> covered o = covered o').
Proof. exact mac_input_binding. Qed.
Print Assumptions C03_binding.

(** Nothing of the primary block is lost by binding [bytes(blk)] after
    [update_crc]: the bound item determines every primary-block field. *)
Theorem C03_primary_bound :
  forall p p' : list cbor, (3 <= length p)%nat -> (3 <= length p')%nat -> primary_item p = primary_item p' -> p = p'.
Proof. exact primary_item_inj. Qed.
Print Assumptions C03_primary_bound.

(** Completeness: the BIB [apply_bib] produces verifies, on the octets of the
    security block, at a verifier whose key ring resolves the key
    (COSE_Mac0 / COSE_Sign1 with a direct key, COSE_Mac with a wrapped key). *)
Theorem C03_complete :
  forall (key : Type) (mac : key -> bytes -> bytes) (mac_ok : key -> bytes -> bytes -> bool)
         (wrap : key -> key -> bytes) (unwrap : key -> bytes -> option key) (keyring : cbor -> option key),
    (forall k m, mac_ok k m (mac k m) = true) ->
    (forall kek cek, unwrap kek (wrap kek cek) = Some cek) ->
    forall (kind : ckind) (kg : keying key) (protected : bytes) (unprot : list (cbor * cbor))
           (b : bundle) (num : N) (source : cbor) (s : scope) (addl : bytes) (au : option bytes)
           (targets : list N) (a : asb),
      let sec := mkCB bib_type num 0 0 [] in
      let sec' := mkCB bib_type num 0 0 (asb_enc a) in
      auth_kind kind ->
      keys_resolve key keyring kind kg protected unprot source (mkSP addl au s) ->
      results_decodable key wrap kind kg protected unprot ->
      (forall x, okbytes (mac (content_key key kg) x)) ->
      scope_of_cbor (scope_map s) = Some s ->
      (forall f, In (CNint 1, f) s -> flag_btsd f = false) ->
      ~ In (CUint num) (map fst s) ->
      find_block b num = None ->
      apply_bib_asb key mac wrap kind kg protected unprot b sec source s addl au targets = Some a ->
      asb_dec (asb_enc a) = Some a ->
      apply_bib key mac wrap kind kg protected unprot b num source s addl au targets = Some (insert_block b sec') /\
      verify_bib key mac_ok unwrap keyring (insert_block b sec') sec' = true.
Proof. exact bib_complete_wire. Qed.
Print Assumptions C03_complete.

(** Pairing invariant of the BIB the source builds: target list = operations
    in the order given, one result per target, result i computed for target i
    (the verifier pairs them positionally; the harness checks the same pairing
    on the wire with an independent MAC computation). *)
Theorem C03_pairing :
  forall (key : Type) (mac : key -> bytes -> bytes) (wrap : key -> key -> bytes)
         (kind : ckind) (kg : keying key) (protected : bytes) (unprot : list (cbor * cbor)) (b : bundle) (sec : cblock)
         (source : cbor) (s : scope) (addl : bytes) (au : option bytes) (targets : list N) (a : asb),
    apply_bib_asb key mac wrap kind kg protected unprot b sec source s addl au targets = Some a ->
    a_targets a = targets /\ length (a_results a) = length (a_targets a) /\
    forall i t, nth_error (a_targets a) i = Some t ->
      exists rs, nth_error (a_results a) i = Some rs /\
                 apply_bib_target key mac wrap kind kg protected unprot b sec source s addl t = Some rs.
Proof. exact bib_pairing. Qed.
Print Assumptions C03_pairing.

(** Soundness under the idealised MAC: if the tag the source computed over
    [o] under [k] is accepted by the verifier for its own view [o'] of the
    (possibly altered) bundle, then the covered content is unchanged and the
    verifier resolved the same key. *)
Theorem C03_sound :
  forall (key : Type) (mac_ok : key -> bytes -> bytes -> bool) (unwrap : key -> bytes -> option key)
         (keyring : cbor -> option key),
    (forall k k' x y t, mac_ok k x t = true -> mac_ok k' y t = true -> k = k' /\ x = y) ->
    forall (k : key) (o : secop) (mi tag : bytes) (b' : bundle) (sec' tgt' : cblock)
           (source' : cbor) (sp' : secparams) (kind' : ckind) (m' : cose),
      let o' := mkOp kind' (c_protected m') b' sec' source' (sp_scope sp') (sp_addl sp') tgt' in
      wf_op o -> wf_op o' ->
      mac_input o = Some mi -> mac_ok k mi tag = true -> c_tag m' = tag ->
      verify_bib_msg key mac_ok unwrap keyring b' sec' tgt' source' sp' kind' m' = true ->
      covered o' = covered o /\ In k (resolve_content_key key unwrap keyring kind' m' source' sp').
Proof. exact bib_sound. Qed.
Print Assumptions C03_sound.

(** ... hence any alteration of covered content, and a wrong key, make
    verification fail. *)
Theorem C03_altered_or_wrong_key_fails :
  forall (key : Type) (mac_ok : key -> bytes -> bytes -> bool) (unwrap : key -> bytes -> option key)
         (keyring : cbor -> option key),
    (forall k k' x y t, mac_ok k x t = true -> mac_ok k' y t = true -> k = k' /\ x = y) ->
    forall (k : key) (o : secop) (mi tag : bytes) (b' : bundle) (sec' tgt' : cblock)
           (source' : cbor) (sp' : secparams) (kind' : ckind) (m' : cose),
      let o' := mkOp kind' (c_protected m') b' sec' source' (sp_scope sp') (sp_addl sp') tgt' in
      wf_op o -> wf_op o' ->
      mac_input o = Some mi -> mac_ok k mi tag = true -> c_tag m' = tag ->
      covered o' <> covered o \/ ~ In k (resolve_content_key key unwrap keyring kind' m' source' sp') ->
      verify_bib_msg key mac_ok unwrap keyring b' sec' tgt' source' sp' kind' m' = false.
Proof. exact bib_altered_fails. Qed.
Print Assumptions C03_altered_or_wrong_key_fails.

(** A verified block has every one of its targets verified (exactly one
    result per target, structural checks passed). *)
Theorem C03_block_sound :
  forall (key : Type) (mac_ok : key -> bytes -> bytes -> bool) (unwrap : key -> bytes -> option key)
         (keyring : cbor -> option key) (b : bundle) (sec : cblock) (a : asb) (i : nat) (t : N),
    verify_bib_asb key mac_ok unwrap keyring b sec a = true ->
    nth_error (a_targets a) i = Some t ->
    exists sp tgt code v kind m,
      extract_secblk a = Some sp /\ find_block b t = Some tgt /\
      nth_error (a_results a) i = Some [(code, v)] /\ cose_of_result code v = Some (kind, m) /\
      verify_bib_msg key mac_ok unwrap keyring b sec tgt (a_source a) sp kind m = true.
Proof. exact bib_block_sound. Qed.
Print Assumptions C03_block_sound.

(** Changes outside the declared scope do not cause failure: the outcome is a
    function of the covered content (and message, key ring) only ... *)
Theorem C03_outside_scope_ok :
  forall (key : Type) (mac_ok : key -> bytes -> bytes -> bool) (unwrap : key -> bytes -> option key)
         (keyring : cbor -> option key) (b : bundle) (sec tgt : cblock) (b' : bundle) (sec' tgt' : cblock)
         (source : cbor) (sp : secparams) (kind : ckind) (m : cose),
    covered (mkOp kind (c_protected m) b' sec' source (sp_scope sp) (sp_addl sp) tgt') =
    covered (mkOp kind (c_protected m) b sec source (sp_scope sp) (sp_addl sp) tgt) ->
    verify_bib_msg key mac_ok unwrap keyring b' sec' tgt' source sp kind m =
    verify_bib_msg key mac_ok unwrap keyring b sec tgt source sp kind m.
Proof. exact bib_outside_scope_ok. Qed.
Print Assumptions C03_outside_scope_ok.

(** ... and the covered content is unchanged by any alteration of blocks that
    are neither the target, nor the security block header, nor named in the
    scope (with the flag bits they are named with), and by CRC-type changes
    of any canonical block. *)
Theorem C03_outside_scope_unchanged :
  forall o o' : secop,
    op_kind o' = op_kind o -> op_protected o' = op_protected o -> op_source o' = op_source o ->
    op_scope o' = op_scope o -> op_addl o' = op_addl o ->
    meta_items (op_sec o') = meta_items (op_sec o) ->
    meta_items (op_tgt o') = meta_items (op_tgt o) -> cb_btsd (op_tgt o') = cb_btsd (op_tgt o) ->
    (forall f, In (CNint 1, f) (op_scope o) -> flag_btsd f = false) ->
    (forall f, In (CUint 0, f) (op_scope o) -> flag_meta f = true -> b_pri (op_bundle o') = b_pri (op_bundle o)) ->
    (forall p f, In (CUint (N.pos p), f) (op_scope o) ->
       option_map (fun c => block_items c f) (find_block (op_bundle o') (N.pos p)) =
       option_map (fun c => block_items c f) (find_block (op_bundle o) (N.pos p))) ->
    covered o' = covered o.
Proof. exact covered_outside_scope. Qed.
Print Assumptions C03_outside_scope_unchanged.

(** Refuted at the wire level (genuine defect of the unchanged code, witness
    replayed on the implementation by the harness): an altered primary-block
    EID, resp. a one-bit change of the security source, with exactly the same
    authenticated input (model verdict 1 = "must verify"). *)
Theorem C03_wire_primary_refuted :
  exists orig alt : bytes,
    wire_primary_raw orig <> wire_primary_raw alt /\ wire_primary_raw alt <> None /\ verdict orig alt = 1.
Proof. exists Wit.orig, Wit.alt_primary. exact Wit.primary_refuted. Qed.
Print Assumptions C03_wire_primary_refuted.

Theorem C03_wire_source_refuted :
  exists orig alt : bytes,
    wire_sources_raw orig <> wire_sources_raw alt /\ wire_sources_raw alt <> None /\
    length orig = length alt /\ verdict orig alt = 1.
Proof. exists Wit.orig, Wit.alt_source. exact Wit.source_refuted. Qed.
Print Assumptions C03_wire_source_refuted.
