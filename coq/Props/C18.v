(* C18 -- the D-Bus view of a TCPCL session is type-correct and consistent.
   About the executable model Model/TcpclSess.v (s = run c ops: every
   configuration and every operation list) and the declared D-Bus signatures
   Gen/DBusSigs.v (regenerated from the decorators of tcpcl/session.py on every
   run) under the marshalling rules of Model/DbusSig.v.

   Proved here:
     (18a) C18_conforms    every signal and return value in the trace conforms
                           to its declared signature;
     (18c) C18_idle_sound  is_sess_idle() = True only with nothing queued,
                           in flight, or buffered.
     (18b) queue consistency, unconditionally (a close reports the transfers
           not yet started as finished and drops them from the send queue in
           the same step; whatever else is queued stays queued and unreported):
           C18_tx_queue, C18_finished_at_most_once,
           C18_finished_was_queued, C18_started_before_finished_success,
           C18_rx_queue (+ no duplicates), C18_pop_once.
   (The tie of the idle predicate to the code's conjunction is in
   Props/TcpclTie.v and is not repeated here.)

   Hypotheses of (18a): all lengths stay below 2^64, stated on the operations:
     op_ok (OSend d) : N.of_nat (length d) < 2^64   (bundle handed to send_bundle_data)
     op_ok (ORx d)   : wf_bytes d                   (what is received are octets)
     N.of_nat (rx_total ops) < 2^64                 (octets received in all)
   The lengths reported in send_bundle_intermediate/finished come from a
   received XFER_ACK field (below 2^64 because the dissector reads 8 octets), or
   are 0, or the stored ack_length; those of recv_bundle_* are the number of
   octets assembled, at most what was received. *)
From Coq Require Import List NArith Bool.
Import ListNotations.
From DTN Require Import Lib.Bytes Model.TcpclMsg Model.TcpclSess Gen.DBusSigs Model.DbusSig
  Proofs.TcpclRobustLib Proofs.TcpclRobustC18 Proofs.TcpclRobustC18b.
Local Open Scope N_scope.

(* ---- (18a) *)
Theorem C18_conforms : forall c ops,
  Forall op_ok ops -> N.of_nat (rx_total ops) < 2^64 ->
  Forall (fun e => event_conforms e = true) (trace (run c ops)).
Proof. exact conforms_run. Qed.
Print Assumptions C18_conforms.

(* a run with a sent and a received transfer: the hypotheses hold and the trace
   has signals of every kind *)
Definition c18_cfg : cfg := mkCfg true [97] 30 60 1000 500 None.
Definition c18_ops : list op :=
  [OStart; OSend [1; 2; 3]; ORx (MAGIC ++ [4; 0]);
   ORx (encode_msg (MSessInit 20 400 1000 [98] [])); OPQ;
   ORx (encode_msg (MXferAck 3 1 3));
   ORx (encode_msg (MXferSeg 2 5 [] [9; 9])); ORx (encode_msg (MXferSeg 1 5 [] [8]));
   OPop 5].
Example C18_conforms_nonvacuous :
  forallb (fun o => match o with ORx d => wf_bytesb d | _ => true end) c18_ops = true
  /\ rx_total c18_ops = 93%nat
  /\ map (fun e => match e with ESig sg _ => signum sg | ERet _ _ => 20 | EPop _ _ => 21 | _ => 22 end)
         (trace (run c18_cfg c18_ops))
     = [1; 20; 1; 1; 2; 4; 5; 6; 7; 21].
Proof. vm_compute. repeat split. Qed.
Example C18_conforms_hyp :
  Forall op_ok c18_ops /\ N.of_nat (rx_total c18_ops) < 2^64.
Proof.
  split; [|vm_compute; reflexivity].
  repeat constructor; cbn [op_ok]; try (vm_compute; reflexivity);
    apply wf_bytesb_spec; vm_compute; reflexivity.
Qed.

(* ---- (18c) *)
Theorem C18_idle_sound : forall s,
  q_idle s = true ->
  pend_start s = [] /\ tx_tmp s = None /\ pend_ack s = [] /\ rx_tmp s = None
  /\ rx_buf s = [] /\ msg_tx s = [].
Proof. exact idle_sound. Qed.
Print Assumptions C18_idle_sound.

Example C18_idle_sound_nonvacuous :
  q_idle (run c18_cfg [OStart]) = true
  /\ q_idle (run c18_cfg [OStart; OSend [1]]) = false
  /\ q_idle (run c18_cfg [OStart; ORx [100; 116]]) = false.
Proof. vm_compute. repeat split. Qed.

(* ---- (18b) the send queue: queued and not yet finished *)
Theorem C18_tx_queue : forall c ops id,
  let s := run c ops in
  In id (q_tx_queue s) <->
  (In (ERet 1 (PStrNum id)) (trace s)
   /\ ~ exists len r, In (ESig SigSendFinished [PStrNum id; PInt len; PStr r]) (trace s)).
Proof. exact tx_queue. Qed.
Print Assumptions C18_tx_queue.

(* for each id at most one send_bundle_finished: fin_ids lists the ids of the
   send_bundle_finished signals of a trace, in order *)
Theorem C18_finished_at_most_once : forall c ops, NoDup (fin_ids (trace (run c ops))).
Proof. exact finished_at_most_once. Qed.
Print Assumptions C18_finished_at_most_once.

Theorem C18_finished_at_most_once_split : forall c ops id l1 r1 l2 r2 a b d,
  trace (run c ops) = a ++ ESig SigSendFinished [PStrNum id; PInt l1; PStr r1] :: b
                        ++ ESig SigSendFinished [PStrNum id; PInt l2; PStr r2] :: d -> False.
Proof. exact finished_at_most_once_split. Qed.
Print Assumptions C18_finished_at_most_once_split.

Theorem C18_finished_was_queued : forall c ops id len r,
  let s := run c ops in
  In (ESig SigSendFinished [PStrNum id; PInt len; PStr r]) (trace s) ->
  In (ERet 1 (PStrNum id)) (trace s) /\ id < next_id s.
Proof. exact finished_was_queued. Qed.
Print Assumptions C18_finished_was_queued.

Theorem C18_started_before_finished_success : forall c ops id len pre post,
  trace (run c ops) = pre ++ ESig SigSendFinished [PStrNum id; PInt len; PStr RES_SUCCESS] :: post ->
  exists n, In (ESig SigSendStarted [PStrNum id; PInt n]) pre.
Proof. exact started_before_finished_success. Qed.
Print Assumptions C18_started_before_finished_success.

(* the receive queue: the last event about id among recv_bundle_finished /
   recv_bundle_pop_data is a recv_bundle_finished (rx_avail) *)
Theorem C18_rx_queue : forall c ops id,
  let s := run c ops in In id (q_rx_queue s) <-> rx_avail id (trace s) = true.
Proof. exact rx_queue. Qed.
Print Assumptions C18_rx_queue.

Theorem C18_rx_queue_nodup : forall c ops, NoDup (q_rx_queue (run c ops)).
Proof. exact rx_queue_nodup. Qed.
Print Assumptions C18_rx_queue_nodup.

(* a pop removes the transfer: a second pop without a new delivery is a KeyError *)
Theorem C18_pop_once : forall c ops id,
  let s := run c ops in
  closed s = false -> rx_avail id (trace s) = false ->
  step s (OPop id) = emit (EExc EX_KEY) s.
Proof. exact pop_once. Qed.
Print Assumptions C18_pop_once.

Theorem C18_not_available_after_pop : forall id d tr evs,
  (forall e, In e evs -> forall b, In (id, b) (rxlog_of e) -> b = false) ->
  rx_avail id (tr ++ [EPop id d] ++ evs) = false.
Proof. exact rx_avail_after_pop. Qed.
Print Assumptions C18_not_available_after_pop.

Example C18_queues_nonvacuous :
  let s1 := run c18_cfg (firstn 8 c18_ops) in
  let s2 := run c18_cfg c18_ops in
  q_rx_queue s1 = [5] /\ rx_avail 5 (trace s1) = true
  /\ q_rx_queue s2 = [] /\ rx_avail 5 (trace s2) = false
  /\ trace (step s2 (OPop 5)) = trace s2 ++ [EExc EX_KEY]
  /\ q_tx_queue (run c18_cfg (firstn 5 c18_ops)) = [1]
  /\ q_tx_queue s2 = [] /\ fin_ids (trace s2) = [1].
Proof. vm_compute. repeat split. Qed.

(* a close with transfers queued but not started reports each of them finished
   ('session terminating', length 0) and removes them from the send queue *)
Example C18_close_reports_queued :
  let s := run c18_cfg [OStart; OSend [1; 2]; OSend [3]; OClose] in
  closed s = true /\ q_tx_queue s = [] /\ fin_ids (trace s) = [1; 2]
  /\ trace s = [ESig SigState [PStr ST_CONTACT]; ERet 1 (PStrNum 1); ERet 1 (PStrNum 2);
                ESig SigSendFinished [PStrNum 1; PInt 0; PStr RES_TERMINATING];
                ESig SigSendFinished [PStrNum 2; PInt 0; PStr RES_TERMINATING]; EClosed].
Proof. vm_compute. repeat split. Qed.
